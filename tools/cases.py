"""Seeded case generators, one per property.  Structural spaces are enumerated; payload values are random.
Every generator returns a list of protocol lines (see /verif/PROTOCOL.md)."""
import itertools, math, random
from fractions import Fraction as _Fr
from wire import *

GRID = [(m, s) for m in range(-3, 4) for s in range(-3, 4)]
CONST_NAMES = None  # filled by check.py from the regenerated table

TPAIRS = [(0, 0), (0, 1), (1, 0), (-1, 0), (0, -1), (-5, -5), (-7, -6), (-6, -7),
          (I64_MIN, I64_MIN), (I64_MIN, I64_MIN + 1), (I64_MIN + 1, I64_MIN), (I64_MAX, I64_MAX),
          (I64_MAX - 1, I64_MAX), (I64_MAX, I64_MAX - 1), (I64_MIN, I64_MAX), (I64_MAX, I64_MIN),
          (123456789, 123456790), (123456790, 123456789), (10 ** 18, 10 ** 18)]


def n_of(tier, quick, thorough):
    return thorough if tier == "thorough" else quick


# ------------------------------------------------------------------------------------------- C01
def i8_edge_cases(rng, n):
    """unit exponents at the edges of their i8 storage. The model's exponents are unbounded integers; the code must agree with it whenever
    operands and RESULT fit into i8 (a well-dimensioned program) — a detour through a negation or a wider/narrower intermediate goes wrong
    only at -128 / 127"""
    E = [-128, -127, -126, -65, -64, -1, 0, 1, 63, 64, 126, 127]
    L = []
    def pair(op):
        while True:
            a = rng.choice(E) if rng.random() < 0.8 else rng.randint(-128, 127)
            b = rng.choice(E) if rng.random() < 0.8 else rng.randint(-128, 127)
            r = a + b if op.startswith("mul") else a - b
            if -128 <= r <= 127:
                return a, b
    for _ in range(n):
        op = rng.choice(["mul", "div", "mulas", "divas"])
        (m1, m2), (s1, s2) = pair(op), pair(op)
        L.append("q %s %s %s" % (op, q(rand_f(rng), m1, s1), q(rand_f(rng), m2, s2)))
        L.append("q %s U:%d,%d U:%d,%d" % (op, m1, s1, m2, s2))
        m, s_ = rng.choice(E), rng.choice(E)
        L.append("q %s %s %s" % (rng.choice(["add", "sub", "cmp", "eq", "addas", "subas", "lt", "ge"]), q(rand_f(rng), m, s_), q(rand_f(rng), m, s_)))
        L.append("q %s %s" % (rng.choice(["neg", "abs", "tof"]), q(rand_f(rng), m, s_)))
    # every divisor/multiplier exponent edge against every dividend edge whose result fits
    for a in E:
        for b in E:
            if -128 <= a - b <= 127:
                L.append("q div %s %s" % (q(rand_f(rng), a, b), q(rand_f(rng), b, a) if -128 <= b - a <= 127 else q(rand_f(rng), b, b)))
                L.append("q div U:%d,0 U:%d,0" % (a, b))
                L.append("q div U:0,%d U:0,%d" % (a, b))
            if -128 <= a + b <= 127:
                L.append("q mul U:%d,0 U:%d,0" % (a, b))
                L.append("q mul %s %s" % (q(rand_f(rng), a, 0), q(rand_f(rng), b, 0)))
    return L


def name_exponents(name):
    """(mm, s) stated by a unit constant's name — the grammar of the module documentation of constants.rs (the same structural reading as
    `Rrtk.nameExponents` in lean/Rrtk/ConstNames.lean): DIMENSIONLESS | INVERSE_<items> | <items>_PER_<items> | <items>"""
    def items(ts):
        m = s = 0
        i = 0
        while i < len(ts):
            k = 1
            if i + 1 < len(ts) and ts[i + 1] in ("SQUARED", "CUBED"):
                k = 2 if ts[i + 1] == "SQUARED" else 3
            if ts[i] == "MILLIMETER": m += k
            elif ts[i] == "SECOND": s += k
            else: return None
            i += 2 if k > 1 else 1
        return (m, s)
    toks = name.split("_")
    if toks == ["DIMENSIONLESS"]:
        return (0, 0)
    if toks[0] == "INVERSE":
        r = items(toks[1:])
        return None if r is None else (-r[0], -r[1])
    if "PER" in toks:
        i = toks.index("PER")
        n, d = items(toks[:i]), items(toks[i + 1:])
        return None if n is None or d is None else (n[0] - d[0], n[1] - d[1])
    return items(toks)


def const_use_cases(rng):
    """a dimensionally correct PROGRAM for every named constant: a quantity of the constant, added to a quantity of the unit the constant's
    NAME states — must work in checked builds (C01: the constant has the exponents its name states; C19: checked = unchecked)"""
    L = []
    for n in CONST_NAMES or []:
        e = name_exponents(n)
        if e is not None:
            L.append("q constadd %s %s" % (n, q(rand_f(rng), e[0], e[1])))
    return L


def time_div_cases(rng):
    """integer division of Time / DimensionlessInteger truncates toward zero: negative, non-multiple dividends over power-of-two and
    other small divisors, every operator form (a shift, a floor division or an unsigned detour differ exactly there)"""
    L = []
    A = [-1, -3, -5, -7, -9, -127, -129, -1001, -(2 ** 31) - 1, -(2 ** 40) - 3, 1, 3, 7, 129, 2 ** 40 + 3, rng.randint(-10 ** 12, -1) | 1]
    B = [2, 4, 8, 16, 1024, 2 ** 31, 2 ** 32, 3, 10, -2, -4, -3]
    for a in A:
        for b in B:
            for op in ("div", "divas"):
                L.append("q %s T:%d D:%d" % (op, a, b))
                L.append("q %s D:%d D:%d" % (op, a, b))
    # dividend = ±divisor (n / n = 1, n / -n = -1): a sign computed from an XOR or a difference of the operands vanishes exactly there
    for n in [1, -1, 2, -7, 1000, 2 ** 31, -(2 ** 31), 2 ** 40 + 3, -(2 ** 62), I64_MAX, rng.randint(2, 10 ** 12)]:
        for m in (n, -n):
            if -(2 ** 63) <= m <= 2 ** 63 - 1:
                for op in ("div", "divas"):
                    L.append("q %s T:%d D:%d" % (op, n, m))
                    L.append("q %s D:%d D:%d" % (op, n, m))
                L.append("q div T:%d T:%d" % (n, m))
    return L


def setter_cases(rng, n):
    """well-dimensioned uses of the unit-checked State setters / constructor on states that are NOT at rest (what a setter leaves
    behind in the other two components shows only then)"""
    L = []
    for _ in range(n):
        L.append("k ssetp %s %s" % (rand_state(rng), q(rand_f(rng), 1, 0)))
        L.append("k ssetv %s %s" % (rand_state(rng), q(rand_f(rng), 1, -1)))
        L.append("k sseta %s %s" % (rand_state(rng), q(rand_f(rng), 1, -2)))
        L.append("k snew %s %s %s" % (q(rand_f(rng), 1, 0), q(rand_f(rng), 1, -1), q(rand_f(rng), 1, -2)))
    return L


INT_BOUNDS = sorted(set(x for k in (7, 8, 15, 16, 24, 31, 32, 53, 62, 63) for d in (-1, 0, 1) for x in (2 ** k + d, -(2 ** k) + d)
                        if -(2 ** 63) <= x <= 2 ** 63 - 1))


def gen_C01(rng, tier):
    L = []
    ops = ["add", "sub", "mul", "div", "addas", "subas", "mulas", "divas", "cmp", "eq"]
    reps = n_of(tier, 1, 4)
    for _ in range(reps):
        for (m1, s1) in GRID:
            for (m2, s2) in GRID:
                for op in ops:
                    L.append("q %s %s %s" % (op, q(rand_f(rng), m1, s1), q(rand_f(rng), m2, s2)))
    for (m1, s1) in GRID:
        for (m2, s2) in GRID:
            v = rng.choice(["00000000", "80000000", "3f800000", rand_f(rng)])
            w = "80000000" if v == "00000000" else v
            L.append("q cmp %s %s" % (q(v, m1, s1), q(w, m2, s2)))       # equal VALUES: panics iff the units differ
            L.append("q eq %s %s" % (q(v, m1, s1), q(w, m2, s2)))
            for op in ("lt", "le", "gt", "ge", "ne"):                       # the operator forms, on equal and on random values
                L.append("q %s %s %s" % (op, q(v, m1, s1), q(w, m2, s2)))
                L.append("q %s %s %s" % (op, q(rand_f(rng), m1, s1), q(rand_f(rng), m2, s2)))
    for (m1, s1) in GRID:
        for (m2, s2) in GRID:
            for op in ["add", "sub", "mul", "div", "addas", "subas", "mulas", "divas", "uceq", "ueqt", "ueqf", "uaok", "uanok", "ucaeq"]:
                L.append("q %s U:%d,%d U:%d,%d" % (op, m1, s1, m2, s2))
    for (m, s) in GRID:
        for _ in range(3):
            L.append("q neg %s" % q(rand_f(rng), m, s))
            L.append("q abs %s" % q(rand_f(rng), m, s))
            L.append("q tof %s" % q(rand_f(rng), m, s))
        L.append("q neg U:%d,%d" % (m, s))
        L.append("q u2pd U:%d,%d" % (m, s))
        L.append("q unew %d %d" % (m, s))
        for _ in range(2):
            L.append("q q2c %s" % q(rand_f(rng), m, s))
            L.append("q tot %s" % q(rand_f(rng, -5, 5), m, s))
            L.append("q tod %s" % q(rand_f(rng), m, s))
        # mixed operands
        for op in ["add", "sub", "mul", "div", "addas", "subas", "mulas", "divas"]:
            for _ in range(2):
                t = rng.choice([rng.randint(-10 ** 13, 10 ** 13)] * 4 + [0, 1, -1, I64_MIN, I64_MAX])      # Time(0) as a divisor; i64::MIN has no negation: the result is ±inf / NaN, as for the converted operand
                # integers beyond 2^24 with low bits set are not f32 values: the operator must round them FIRST (`Quantity::from`)
                d = rng.choice([rng.randint(-10 ** 6, 10 ** 6), strat_i64(rng), rng.choice([-1, 1]) * (2 ** rng.randint(24, 40) + rng.randint(1, 7))])
                L.append("q %s %s T:%d" % (op, q(rand_f(rng), m, s), t))
                L.append("q %s %s D:%d" % (op, q(rand_f(rng), m, s), d))
                if not op.endswith("as"):
                    L.append("q %s T:%d %s" % (op, t, q(rand_f(rng), m, s)))
                    L.append("q %s D:%d %s" % (op, d, q(rand_f(rng), m, s)))
    for _ in range(n_of(tier, 200, 1000)):
        t1, t2 = rng.randint(-10 ** 13, 10 ** 13), rng.randint(-10 ** 13, 10 ** 13)
        d1 = rng.randint(-10 ** 6, 10 ** 6)
        L.append("q mul T:%d T:%d" % (t1, t2))
        L.append("q div T:%d T:%d" % (t1, t2))
        L.append("q div D:%d T:%d" % (d1, t2))
        L.append("q toq T:%d" % t1)
        L.append("q toq D:%d" % d1)
    # random exponents up to |60|
    for _ in range(n_of(tier, 3000, 20000)):
        m1, s1, m2, s2 = [rng.randint(-60, 60) for _ in range(4)]
        if rng.random() < 0.3:
            m2, s2 = m1, s1
        op = rng.choice(ops)
        L.append("q %s %s %s" % (op, q(rand_f(rng), m1, s1), q(rand_f(rng), m2, s2)))
        L.append("q %s U:%d,%d U:%d,%d" % (rng.choice(["add", "sub", "mul", "div", "mulas", "divas"]), m1, s1, m2, s2))
    L += i8_edge_cases(rng, n_of(tier, 300, 2000))
    # signed zeros and the extreme integers in the mixed forms: x - Time(0) keeps the sign of a zero x (it is x - (+0.0), not x + (-(0))),
    # and i64::MIN converts like any other integer
    for z in ("00000000", "80000000"):
        for op in ("add", "sub", "addas", "subas", "mul", "div"):
            L.append("q %s Q:%s:0,1 T:0" % (op, z))
            L.append("q %s Q:%s:0,0 D:0" % (op, z))
            if not op.endswith("as"):
                L.append("q %s T:0 Q:%s:0,1" % (op, z))
                L.append("q %s D:0 Q:%s:0,0" % (op, z))
    for ext in (I64_MIN, I64_MAX, I64_MIN + 1):
        for op in ("add", "sub", "addas", "subas", "mul", "div", "mulas", "divas"):
            L.append("q %s %s T:%d" % (op, q(rand_f(rng), 0, 1) if op[:3] in ("add", "sub") else q(rand_f(rng), 1, -1), ext))
            L.append("q %s %s D:%d" % (op, q(rand_f(rng), 0, 0) if op[:3] in ("add", "sub") else q(rand_f(rng), 1, -1), ext))
    # "panics if and only if the units differ" — also where the operation runs inside a destructor during unwinding from another panic
    for (m1, s1) in GRID[::5]:
        for (m2, s2) in [(m1, s1)] + GRID[::11]:
            for op in ("add", "sub", "addas", "subas", "cmp", "lt", "ge", "eq", "mul"):
                L.append("q unw %s %s %s" % (op, q(rand_f(rng), m1, s1), q(rand_f(rng), m2, s2)))
            L.append("q unw add U:%d,%d U:%d,%d" % (m1, s1, m2, s2))
            L.append("q unw subas U:%d,%d U:%d,%d" % (m1, s1, m2, s2))
        L.append("q unw add %s T:%d" % (q(rand_f(rng), m1, s1), rng.randint(-10 ** 9, 10 ** 9)))
        L.append("q unw sub D:%d %s" % (rng.randint(-99, 99), q(rand_f(rng), m1, s1)))
    # special float values: bit-level comparison only
    for a in SPECIAL_F:
        for b in SPECIAL_F:
            for op in ["add", "sub", "mul", "div", "cmp", "eq", "lt", "le", "gt", "ge", "ne"]:
                L.append("q %s Q:%s:1,0 Q:%s:1,0" % (op, a, b))
        L.append("q neg Q:%s:1,0" % a)
        L.append("q abs Q:%s:1,0" % a)
    for n in CONST_NAMES or []:
        L.append("q const %s" % n)
    L += const_use_cases(rng)
    for pd in "PVA":
        L.append("q pd2u %s" % pd)
        for _ in range(3):
            L.append("q c2q %s%s" % (pd, rand_f(rng)))
            L.append("q c2pd %s%s" % (pd, rand_f(rng)))
    for p in ["BS", "IA", "CV", "EA", "CO"]:
        L.append("q mpp2pd %s" % p)
        L.append("q mpp2u %s" % p)
    return L


# ------------------------------------------------------------------------------------------- C02
CATS_F = ["E1", "E2", "N", "S"]


def mk_out(rng, cat, t, ty="f"):
    if cat != "S":
        return cat
    if ty == "f":
        return out_some(t, rand_f(rng))
    if ty == "b":
        return out_some(t, rng.choice(["true", "false"]))
    if ty == "q":
        return out_some(t, q(rand_f(rng), 1, 0))
    raise ValueError(ty)


def gen_C02(rng, tier):
    L = ["st exp S@1@00000000 S@2@00000000"]       # the first power-function call of the process: 0^0 (see gen_C19)
    maxn = n_of(tier, 5, 8)
    for name in ["sum", "prod", "latest"]:
        for n in range(1, maxn + 1):
            combos = list(itertools.product(CATS_F, repeat=n)) if n <= 5 else \
                [tuple(rng.choice(CATS_F) for _ in range(n)) for _ in range(3000)]
            for cats in combos:
                torders = list(itertools.product([1, 2, 3], repeat=n)) if n <= 3 else \
                    [tuple(rng.choice([1, 2, 3]) for _ in range(n)) for _ in range(2 if n <= 5 else 1)]
                for ts in torders:
                    L.append("st %s f %d %s" % (name, n, " ".join(mk_out(rng, c, t) for c, t in zip(cats, ts))))
    # n-ary at n=2 against the two-input forms on the *same* inputs (the comparator checks each against the model;
    # the model theorems relate the two)
    for c1 in CATS_F:
        for c2 in CATS_F:
            for (t1, t2) in [(1, 2), (2, 2), (3, 2)]:
                for rep in range(n_of(tier, 2, 6)):
                    a, b = mk_out(rng, c1, t1), mk_out(rng, c2, t2)
                    for name in ["sum2", "prod2", "diff", "quot", "exp"]:
                        if name == "exp":
                            L.append("st exp %s %s" % (a, b))
                        else:
                            L.append("st %s f %s %s" % (name, a, b))
                    L.append("st sum f 2 %s %s" % (a, b))
                    L.append("st prod f 2 %s %s" % (a, b))
    # if / if-else / and / or / not over {E1,E2,N,true,false}
    BC = ["E1", "E2", "N", "T", "F"]

    def mkb(c, t):
        return c if c in ("E1", "E2", "N") else out_some(t, "true" if c == "T" else "false")
    for c in BC:
        for ci in CATS_F:
            for (t1, t2) in [(1, 2), (2, 2), (3, 2)]:
                L.append("st if f %s %s" % (mkb(c, t1), mk_out(rng, ci, t2)))
                for cj in CATS_F:
                    L.append("st ifelse f %s %s %s" % (mkb(c, t1), mk_out(rng, ci, t2), mk_out(rng, cj, 5)))
                    if t1 == 1:     # the same, with ONE condition getter (behind a Mutex) shared by the stream and both of its branches
                        L.append("st ifelsemx f %s %s %s" % (mkb(c, t1), mk_out(rng, ci, t2), mk_out(rng, cj, 5)))
        L.append("st not %s" % mkb(c, 7))
        for c2 in BC:
            for (t1, t2) in [(1, 2), (2, 2), (3, 2)]:
                L.append("st and %s %s" % (mkb(c, t1), mkb(c2, t2)))
                L.append("st or %s %s" % (mkb(c, t1), mkb(c2, t2)))
    # expirer: input category x time getter category x age (<,=,>) limit
    for ci in CATS_F:
        for ct in ["T", "E1", "E2"]:
            # limits below and far above 2^24 ns: the age must be compared in exact integer nanoseconds
            for limit in [0, 5, 1000, 2 ** 24 + 3, 100_000_000, 10_000_000_000, 3_600_000_000_000]:
                for age in [limit - 1, limit, limit + 1, limit + 3]:
                    t0 = rng.randint(-10 ** 9, 10 ** 9)
                    now = ("T:%d" % (t0 + age)) if ct == "T" else ct
                    L.append("st expirer f %s %s %d" % (mk_out(rng, ci, t0), now, limit))
                    L.append("st n2v f %s %s %s" % (mk_out(rng, ci, t0), now, rand_f(rng)))
            L.append("st const f %s %s" % (("T:%d" % rng.randint(-99, 99)) if ct == "T" else ct, rand_f(rng)))
        L.append("st n2e f %s" % mk_out(rng, ci, 3))
        L.append("st tgfg f %s" % mk_out(rng, ci, rng.randint(-99, 99)))
    # expirer with "never expire" limits (i64::MAX and neighbours) and clocks of either sign: the age `now - stamp` is formed
    # first and compared with the limit (a precomputed cutoff `now - limit` would overflow for negative clocks)
    for limit in [I64_MAX, I64_MAX - 1, 2 ** 62, 2 ** 63 - 10 ** 9]:
        for now in [-5, -1, 0, 7, -10 ** 12, 10 ** 12, -(2 ** 62), I64_MIN + 20]:
            for back in [0, 5, 10 ** 9]:
                if I64_MIN <= now - back:
                    L.append("st expirer f %s T:%d %d" % (out_some(now - back, rand_f(rng)), now, limit))
    for limit in [0, 1, 10 ** 9]:
        # (ages that overflow i64 are outside the modelled range: the property quantifies over non-overflowing clocks)
        for (t0, now) in [(I64_MIN, I64_MIN + limit), (I64_MAX - limit, I64_MAX), (I64_MIN + 1, 0), (0, I64_MAX), (-3, I64_MAX - 3)]:
            L.append("st expirer f %s T:%d %d" % (out_some(t0, rand_f(rng)), now, limit))
    # exponent stream at the exact corner cases of the power function (x^0 = 1 also for x = 0, 0^negative = inf, 1^y = 1, ...):
    # "present values are combined with exactly the corresponding operator"
    for base in ["00000000", "80000000", "3f800000", "bf800000", "40000000", "c0000000", "3f000000", "7f800000", "ff800000", "7fc00000", "00000001", "3dcccccd"]:
        for ex in ["00000000", "80000000", "bf800000", "3f800000", "3f000000", "bf000000", "40000000", "40400000", "c0000000", "7f800000", "ff800000", "7fc00000"]:
            L.append("st exp S@1@%s S@2@%s" % (base, ex))
    L.append("st none f")
    # operand ORDER: a payload whose operators are not commutative (words under concatenation, harness type `w`) through every generic
    # combinator — f32 / Quantity arithmetic cannot tell `x * y` from `y * x`, this payload can
    letters = "abcdefgh"
    for n in range(1, 6):
        for pat in itertools.product("SN", repeat=n):
            if "S" not in pat:
                continue
            ins = " ".join(out_some(rng.randint(-5, 5), "W:" + letters[i] * rng.randint(1, 2)) if c == "S" else "N" for i, c in enumerate(pat))
            L.append("st sum w %d %s" % (n, ins))
            L.append("st prod w %d %s" % (n, ins))
            L.append("st latest w %d %s" % (n, ins))
    for ca in CATS_F:
        for cb in CATS_F:
            a = out_some(rng.randint(-5, 5), "W:ab") if ca == "S" else ca
            b = out_some(rng.randint(-5, 5), "W:cd") if cb == "S" else cb
            for name in ("sum2", "prod2", "diff", "quot"):
                L.append("st %s w %s %s" % (name, a, b))
    # newest-of / sum / product when EVERY present input carries an extreme timestamp (a running maximum seeded with a sentinel instead
    # of an Option goes wrong exactly there)
    for tx in (I64_MIN, I64_MIN + 1, I64_MAX, 0):
        for n in (1, 2, 3):
            for pat in itertools.product("SNE", repeat=n):
                if "S" not in pat:
                    continue
                ins = " ".join(out_some(tx, rand_f(rng)) if c == "S" else ("N" if c == "N" else "E1") for c in pat)
                L.append("st latest f %d %s" % (n, ins))
                if "E" not in pat:
                    L.append("st sum f %d %s" % (n, ins))
    # other payload types through the type-generic combinators
    for ty in ["b", "q"]:
        for ci in CATS_F:
            L.append("st n2e %s %s" % (ty, mk_out(rng, ci, 3, ty)))
            L.append("st latest %s 2 %s %s" % (ty, mk_out(rng, ci, 3, ty), mk_out(rng, "S", 2, ty)))
            L.append("st if %s S@1@true %s" % (ty, mk_out(rng, ci, 3, ty)))
    return L


# ------------------------------------------------------------------------------------------- C03
def rand_val(rng, ty):
    if ty == "f":
        return rand_f(rng)
    if ty == "q":
        return q(rand_f(rng), 1, -1)
    if ty == "s":
        return state(rand_f(rng), rand_f(rng), rand_f(rng))
    if ty == "c":
        return "P" + rand_f(rng)
    if ty == "b":
        return rng.choice(["true", "false"])


def gen_C03(rng, tier):
    L = []
    pairs = TPAIRS + [(rng.randint(-10 ** 15, 10 ** 15), rng.randint(-10 ** 15, 10 ** 15)) for _ in range(n_of(tier, 10, 60))]
    for (t1, t2) in pairs:
        for ty in "fqsc":
            for op in ["add", "sub", "mul", "div", "addas", "subas", "mulas", "divas"]:
                second = "f" if (ty in "sc" and op[:3] in ("mul", "div")) else ty
                # for ty=q mul/div any units; add/sub same units (unit panics belong to C01)
                a = "%d@%s" % (t1, rand_val(rng, ty))
                L.append("d %s %s %s %d@%s" % (op, ty, a, t2, rand_val(rng, second)))
                L.append("d %s %s %s %s" % (op, ty, a, rand_val(rng, second)))
            L.append("d neg %s %d@%s" % (ty, t1, rand_val(rng, ty)))
        L.append("d not b %d@%s" % (t1, rand_val(rng, "b")))
        for ty in "fqscb":
            a, b = "%d@%s" % (t1, rand_val(rng, ty)), "%d@%s" % (t2, rand_val(rng, ty))
            L.append("d rio %s %s %s" % (ty, a, b))
            L.append("d rino %s %s %s" % (ty, a, b))
            L.append("d rino %s none %s" % (ty, b))
            L.append("d rinoo %s %s %s" % (ty, a, b))
            L.append("d rinoo %s none %s" % (ty, b))
            L.append("d rinoo %s %s none" % (ty, a))
            L.append("d rinoo %s none none" % ty)
            L.append("d latest %s %s %s" % (ty, a, b))
        # stream-level timestamps
        a, b = out_some(t1, rand_f(rng)), out_some(t2, rand_f(rng))
        for name in ["sum2", "prod2", "diff", "quot"]:
            L.append("st %s f %s %s" % (name, a, b))
        L.append("st exp %s %s" % (a, b))
        # an operand that leaves the VALUE unchanged (x^1, x*1, x+0, x-0, x/1 …) still contributes its timestamp: a fast path that
        # returns the other operand as it is loses the newer stamp
        for ident in ("3f800000", "00000000", "80000000"):
            ia, ib = out_some(t1, ident), out_some(t2, ident)
            for name in ["sum2", "prod2", "diff", "quot"]:
                L.append("st %s f %s %s" % (name, a, ib))
                L.append("st %s f %s %s" % (name, ia, b))
            L.append("st exp %s %s" % (a, ib))
            L.append("st exp %s %s" % (ia, b))
            L.append("st sum f 3 %s %s %s" % (a, ib, out_some(min(t1, t2), rand_f(rng))))
            L.append("st prod f 3 %s %s %s" % (ia, b, out_some(min(t1, t2), rand_f(rng))))
            for op in ("add", "sub", "mul", "div"):
                L.append("d %s f %d@%s %d@%s" % (op, t1, rand_f(rng), t2, ident))
                L.append("d %s f %d@%s %d@%s" % (op, t1, ident, t2, rand_f(rng)))
        L.append("st sum f 2 %s %s" % (a, b))
        L.append("st prod f 2 %s %s" % (a, b))
        L.append("st latest f 2 %s %s" % (a, b))
        for x in ["true", "false"]:
            for y in ["true", "false"]:
                L.append("st and S@%d@%s S@%d@%s" % (t1, x, t2, y))
                L.append("st or S@%d@%s S@%d@%s" % (t1, x, t2, y))
    # Datum arithmetic on the non-commutative word payload (operand order of the ~40 operator impls)
    for (t1, t2) in TPAIRS[:8]:
        for op in ("add", "sub", "mul", "div", "addas", "subas", "mulas", "divas"):
            L.append("d %s w %d@W:ab %d@W:cd" % (op, t1, t2))
            L.append("d %s w %d@W:ab W:cd" % (op, t1))
    # device-level timestamps (terminal state averaging, inverter / gear train / axle / differential updates), incl. negative times
    for l in subsample(rng, gen_devices(rng, "quick", with_cmds=True, with_states=True), n_of(tier, 250, 1500)):
        L.append(l)
    for (t1, t2) in TPAIRS[:8] + [(-5, -3), (-10 ** 9, -1)]:
        for setup, nt in (("inv", 2), ("gear:40000000", 2), ("axle:3", 3), ("diff:EQ", 3), ("diff:SU", 3)):
            st1 = mkstate(rng)
            ops = ["ss:0:%d@%s" % (t1, st1), "ss:1:%d@%s" % (t2, st1 if rng.random() < 0.35 else mkstate(rng))]
            if nt == 3:
                ops.append("ss:2:%d@%s" % (min(t1, t2), mkstate(rng)))
            L.append("dv %s -- %s u:0 oa ra" % (setup, " ".join(ops)))
    # n-ary: every order pattern of up to 4 timestamps, some inputs absent
    for n in range(1, 5):
        for ts in itertools.product([-1, 0, 1, 2], repeat=n):
            present = [rng.random() < 0.85 for _ in range(n)]
            ins = " ".join(out_some(t, rand_f(rng)) if p else rng.choice(["N", "N", "E1"]) for t, p in zip(ts, present))
            L.append("st latest f %d %s" % (n, ins))
            ins2 = " ".join(out_some(t, rand_f(rng)) if p else "N" for t, p in zip(ts, present))
            L.append("st sum f %d %s" % (n, ins2))
            L.append("st prod f %d %s" % (n, ins2))
    return L


GENERATORS = {"C01": gen_C01, "C02": gen_C02, "C03": gen_C03}


# ------------------------------------------------------------------------------------------- C14
def rand_state(rng):
    def comp():
        r = rng.random()
        if r < 0.25:
            return "00000000"
        if r < 0.30:
            return "80000000"
        return rand_f(rng)
    return "%s/%s/%s" % (comp(), comp(), comp())


def gen_C14(rng, tier):
    L = []
    n = n_of(tier, 3000, 20000)
    for _ in range(n):
        s = rand_state(rng)
        dt = rng.choice([0, 1, -1, 2_000_000_000, -2_000_000_000, rng.randint(-10 ** 14, 10 ** 14), rng.randint(-10 ** 9, 10 ** 9)])
        L.append("k supd %s %d" % (s, dt))
    for (m, sx) in GRID:
        for op in ["ssetp", "ssetv", "sseta"]:
            for _ in range(n_of(tier, 2, 6)):
                L.append("k %s %s %s" % (op, rand_state(rng), q(rand_f(rng), m, sx)))
        # State::new with one argument of this unit in each position
        L.append("k snew %s %s %s" % (q(rand_f(rng), m, sx), q(rand_f(rng), 1, -1), q(rand_f(rng), 1, -2)))
        L.append("k snew %s %s %s" % (q(rand_f(rng), 1, 0), q(rand_f(rng), m, sx), q(rand_f(rng), 1, -2)))
        L.append("k snew %s %s %s" % (q(rand_f(rng), 1, 0), q(rand_f(rng), 1, -1), q(rand_f(rng), m, sx)))
    for _ in range(n_of(tier, 600, 4000)):
        s, s2 = rand_state(rng), rand_state(rng)
        f = rand_f(rng)
        for op in ["ssetpr", "ssetvr", "ssetar", "smul", "sdiv", "smulas", "sdivas"]:
            L.append("k %s %s %s" % (op, s, f))
        for op in ["sadd", "ssub", "saddas", "ssubas", "seq"]:
            L.append("k %s %s %s" % (op, s, s2))
        for op in ["sgetp", "sgetv", "sgeta", "sneg", "cfroms"]:
            L.append("k %s %s" % (op, s))
        for pd in "PVA":
            L.append("k sget %s %s" % (s, pd))
            L.append("k cnew %s %s" % (pd, f))
        L.append("k snewraw %s %s %s" % tuple(s.split("/")))
    for k1 in "PVA":
        for k2 in "PVA":
            for _ in range(n_of(tier, 30, 200)):
                a, b = k1 + rand_f(rng), k2 + rand_f(rng)
                for op in ["cadd", "csub", "caddas", "csubas", "ceq"]:
                    L.append("k %s %s %s" % (op, a, b))
        for _ in range(n_of(tier, 60, 400)):
            a = k1 + rng.choice([rand_f(rng), "00000000", "80000000", "7fc00000"])
            f = rand_f(rng)
            for op in ["cmul", "cdiv", "cmulas", "cdivas"]:
                L.append("k %s %s %s" % (op, a, f))
            for op in ["ckind", "craw", "cpos", "cvel", "cacc", "cneg"]:
                L.append("k %s %s" % (op, a))
            L.append("k ceq %s %s" % (a, a))
            L.append("q c2q %s" % a)
    for (m, sx) in GRID:
        L.append("q q2c %s" % q(rand_f(rng), m, sx))
        for z in ("00000000", "80000000"):          # a ZERO velocity / acceleration quantity is still a velocity / acceleration command
            L.append("q q2c Q:%s:%d,%d" % (z, m, sx))
    # structured kinematics: exactly representable (dyadic) states and whole / dyadic time steps chosen so that intermediate quantities
    # vanish or tie — zero NET displacement with non-zero velocities (a*dt = -2v), velocity reaching exactly zero (a*dt = -v), a = 0,
    # v = 0, dt = 0 — where a "nothing changed, skip the write" shortcut keyed on ONE of the three results goes wrong
    for _ in range(n_of(tier, 400, 3000)):
        dts = rng.choice([1, 2, 4, 8, 3, 5]) * rng.choice([10 ** 9, 10 ** 9, 5 * 10 ** 8, 25 * 10 ** 7]) * rng.choice([1, 1, -1])
        dt = dts / 1e9
        v = rng.choice([-1, 1]) * rng.randint(1, 64) * rng.choice([1.0, 0.5, 0.25, 2.0])
        kind = rng.random()
        if kind < 0.4: a = -2.0 * v / dt
        elif kind < 0.7: a = -v / dt
        elif kind < 0.8: a = 0.0
        elif kind < 0.9: a, v = rng.choice([-3.0, 1.5]), 0.0
        else: a = rng.choice([-2.0, 0.75])
        x = rng.choice([0.0, 10.0, -7.5, float(rng.randint(-100, 100))])
        L.append("k supd %s/%s/%s %d" % (f2h(x), f2h(v), f2h(a), dts))
    for _ in range(n_of(tier, 300, 2000)):
        L.append("k pidk %s" % " ".join(rand_f(rng) for _ in range(6)))
        L.append("k pidk3 %s %s %s" % (" ".join(rand_f(rng) for _ in range(9)), rng.choice("PVA"), " ".join(rand_f(rng) for _ in range(3))))
        L.append("k pidk3get %s %s" % (" ".join(rand_f(rng) for _ in range(9)), rng.choice("PVA")))
    return L


# ------------------------------------------------------------------------------------------- C18
def strat_i64(rng):
    """stratified over magnitudes 0..2^62 and signs, plus neighbourhoods of 2^24*2^k (rounding ties)"""
    r = rng.random()
    if r < 0.1:
        return rng.choice([0, 1, -1, 2, -2, I64_MAX, I64_MIN, I64_MAX - 1, I64_MIN + 1])
    if r < 0.45:
        k = rng.randint(0, 62)
        return rng.choice([-1, 1]) * rng.randint(2 ** k // 2, 2 ** k)
    if r < 0.75:
        k = rng.randint(24, 62)
        return rng.choice([-1, 1]) * (2 ** k + rng.randint(-3, 3) * 2 ** max(0, k - 24) // 2 + rng.randint(-2, 2))
    return rng.randint(-10 ** 12, 10 ** 12)


def gen_C18(rng, tier):
    L = []
    n = n_of(tier, 6000, 50000)
    for _ in range(n):
        a, b = strat_i64(rng), strat_i64(rng)
        if rng.random() < 0.5:
            b = rng.choice([0, 1, -1, 2, 3, -7, 1000, 10 ** 9, rng.randint(-10 ** 6, 10 ** 6)])
        ty = rng.choice("TD")
        op = rng.choice(["add", "sub", "addas", "subas"])
        L.append("q %s %s:%d %s:%d" % (op, ty, a, ty, b))
        op = rng.choice(["mul", "div", "mulas", "divas"])
        L.append("q %s D:%d D:%d" % (op, a, b))
        L.append("q %s T:%d D:%d" % (op, a, b))
        L.append("q %s D:%d T:%d" % (rng.choice(["mul", "div"]), b, a))
        L.append("q neg %s:%d" % (ty, a))
    # the boundaries of the narrower integer and float-mantissa types (2^7 .. 2^63, each -1/0/+1) against the small operands at which a
    # "fast path" through a narrower type overflows or truncates (MIN / -1, MAX + 1, ...) — every operator form, both operand orders
    small = [-1, 1, 0, 2, -2, 3, 10]
    for a in INT_BOUNDS:
        for b in small + rng.sample(INT_BOUNDS, 6):
            for op in ("add", "sub", "addas", "subas"):
                ty = rng.choice("TD")
                L.append("q %s %s:%d %s:%d" % (op, ty, a, ty, b))
            for op in ("mul", "div", "mulas", "divas"):
                L.append("q %s T:%d D:%d" % (op, a, b))
                L.append("q %s D:%d D:%d" % (op, a, b))
                if rng.random() < 0.3:
                    L.append("q %s T:%d D:%d" % (op, b, a))
            L.append("q div D:%d T:%d" % (a, b))
            L.append("q mul D:%d T:%d" % (b, a))
        L.append("q neg T:%d" % a)
        L.append("q neg D:%d" % a)
    L += time_div_cases(rng)
    # conversions
    ts = sorted(set([strat_i64(rng) for _ in range(n_of(tier, 4000, 40000))] + INT_BOUNDS))
    for t in ts:
        L.append("q toq T:%d" % t)
        L.append("q toq D:%d" % t)
        L.append("q toi T:%d" % t)
        L.append("q mkt I:%d" % t)
        L.append("q mkd I:%d" % t)
    # f32 seconds below 9e9, stratified exponent/mantissa sampling
    for _ in range(n_of(tier, 6000, 50000)):
        e = rng.randint(1, 160)          # biased exponent: 2^-126 .. 2^33
        man = rng.choice([0, 1, 0x7fffff, 0x400000, rng.randint(0, 0x7fffff)])
        bits = (rng.randint(0, 1) << 31) | (e << 23) | man
        h = "%08x" % bits
        if abs(h2f(h)) >= 9e9:
            continue
        L.append("q tot Q:%s:0,1" % h)
        L.append("q tod Q:%s:0,0" % h)
    for (m, s) in GRID:
        L.append("q tot %s" % q(rand_f(rng, -5, 5), m, s))
        L.append("q tod %s" % q(rand_f(rng), m, s))
    # mixed operators yielding a Quantity, on all 49 units
    for (m, s) in GRID:
        for op in ["add", "sub", "mul", "div", "addas", "subas", "mulas", "divas"]:
            for _ in range(n_of(tier, 2, 8)):
                t = rng.choice([strat_i64(rng), rng.randint(-10 ** 13, 10 ** 13)])
                L.append("q %s %s T:%d" % (op, q(rand_f(rng), m, s), t))
                L.append("q %s %s D:%d" % (op, q(rand_f(rng), m, s), t))
                if not op.endswith("as"):
                    L.append("q %s T:%d %s" % (op, t, q(rand_f(rng), m, s)))
                    L.append("q %s D:%d %s" % (op, t, q(rand_f(rng), m, s)))
    for _ in range(n_of(tier, 500, 4000)):
        a, b = strat_i64(rng), strat_i64(rng)
        L.append("q mul T:%d T:%d" % (a, b))
        L.append("q div T:%d T:%d" % (a, b))
        L.append("q div D:%d T:%d" % (a, b))
    L += gen_softfloat(rng, tier)
    return L


def strat_f32_bits(rng):
    """binary32 bit patterns stratified over the classes that matter for rounding: subnormal, smallest normals, near 1,
    few-mantissa-bit values (exact ties when added / multiplied), near overflow, the constants the crate uses, fully random"""
    k = rng.randint(0, 9)
    sign = rng.randint(0, 1) << 31
    if k == 0:
        return sign | rng.randint(0, 0x7fffff)                                   # subnormal / zero
    if k == 1:
        return sign | (rng.randint(1, 3) << 23) | rng.choice([0, 1, 0x7fffff, rng.randint(0, 0x7fffff)])
    if k == 2:
        return sign | (rng.randint(125, 129) << 23) | rng.randint(0, 0x7fffff)   # around 1
    if k == 3:
        return sign | (rng.randint(251, 254) << 23) | rng.choice([0, 0x7fffff, rng.randint(0, 0x7fffff)])   # near overflow
    if k == 4:
        return sign | (rng.randint(100, 160) << 23) | (rng.randint(0, 0x7ff) << 12)   # 11 significant bits: ties are common
    if k == 5:
        return sign | (rng.randint(100, 160) << 23) | rng.choice([0, 1, 2, 3, 0x7ffffe, 0x7fffff, 0x400000, 0x400001])
    if k == 6:
        return sign | rng.choice([0x4e6e6b28, 0x3f000000, 0x40000000, 0x3f800000, 0x4b800000, 0x4b7fffff, 0x5f000000])   # 1e9, .5, 2, 1, 2^24, 2^24-1, 2^63
    return sign | (rng.randint(0, 254) << 23) | rng.randint(0, 0x7fffff)


def gen_softfloat(rng, tier):
    """`sf`: the CPU's binary32 `+ - * /`, `i64 as f32`, `f32 as i64` against the kernel-transparent model `Rrtk.Soft.rne32`"""
    L = []
    for _ in range(n_of(tier, 6000, 60000)):
        a, b = strat_f32_bits(rng), strat_f32_bits(rng)
        if rng.random() < 0.15:      # operands one ulp or a few binades apart: cancellation, exact ties
            b = (a ^ (rng.randint(0, 1) << 31)) + rng.choice([0, 1, -1, 1 << 23, -(1 << 23), 3 << 23]) if 0 < (a & 0x7fffffff) < 0x7f000000 else b
            b &= 0xffffffff
        for op in ("add", "sub", "mul", "div"):
            L.append("sf %s %08x %08x" % (op, a, b))
    for _ in range(n_of(tier, 3000, 30000)):
        n = strat_i64(rng)
        L.append("sf ofint %d" % n)
        L.append("sf toint %08x" % strat_f32_bits(rng))
    for n in (0, 1, -1, 16777216, 16777217, 16777218, 16777219, -16777217, 1000000000, 999999999, I64_MAX, I64_MIN, I64_MAX - 1,
              2 ** 62, 2 ** 62 + 2 ** 38, 2 ** 62 + 2 ** 38 + 1, 2 ** 62 + 3 * 2 ** 38):
        L.append("sf ofint %d" % n)
    for h in ("5f000000", "df000000", "5effffff", "deffffff", "7f800000", "ff800000", "7fc00000", "3f7fffff", "bf7fffff", "00000001", "80000001"):
        L.append("sf toint %s" % h)
    return L


GENERATORS.update({"C14": gen_C14, "C18": gen_C18})


# =========================================================================== stateful streams
RELATIONS = {}   # pid -> list of (kind, idxA, idxB, extra) consumed by the property's oracle


def shift_tok(tok, c):
    """shift the timestamp of an Output token `S@t@v` by c"""
    if tok.startswith("S@"):
        _, t, v = tok.split("@", 2)
        return "S@%d@%s" % (int(t) + c, v)
    return tok


def history(rng, n, mkval, weights=(0.7, 0.12, 0.09, 0.09), t0=None, dt=None, repeat_ts=False, restart_ties=True):
    """n events over {present, absent, E1, E2, EN}; present samples get increasing timestamps.  `restart_ties`: the first
    present sample after an absent/errored event sometimes carries exactly the timestamp of the last sample before it (a stale
    "no time has passed" shortcut must not keep the error / old state alive)."""
    t = rng.randint(-10 ** 12, 10 ** 12) if t0 is None else t0
    evs = []
    for _ in range(n):
        r = rng.random()
        if r < weights[0]:
            if repeat_ts and rng.random() < 0.15:
                step = 0
            elif restart_ties and evs and evs[-1][0] != "S" and rng.random() < 0.25:
                step = 0
            else:
                step = dt(rng) if dt else log_dt(rng)
            t += step
            evs.append("S@%d@%s" % (t, mkval(rng)))
        elif r < weights[0] + weights[1]:
            evs.append("N")
        elif r < weights[0] + weights[1] + weights[2]:
            evs.append("E1")
        else:
            evs.append(rng.choice(["E2", "EN"]))     # Error::Other(2) / Error::FromNone (an elevated None is still an error)
    return evs


def all_histories(rng, maxlen, mkval):
    """every interleaving of {S, N, E1, E2, EN} up to maxlen, timestamps increasing by 1 s (a present sample that directly
    follows a non-present event repeats the previous timestamp in a second copy of the history)"""
    for n in range(1, maxlen + 1):
        for cats in itertools.product("SN12F", repeat=n):
            t = 0
            evs = []
            for c in cats:
                if c == "S":
                    t += 1_000_000_000
                    evs.append("S@%d@%s" % (t, mkval(rng)))
                else:
                    evs.append({"N": "N", "1": "E1", "2": "E2", "F": "EN"}[c])
            yield evs
            # same categories, but time stands still across every gap
            if any(a != "S" and b == "S" for a, b in zip(cats, cats[1:])) and "S" in cats[:-1]:
                t = 0
                evs2 = []
                prev = None
                for c in cats:
                    if c == "S":
                        if prev is None or prev == "S":
                            t += 1_000_000_000
                        evs2.append("S@%d@%s" % (t, mkval(rng)))
                    else:
                        evs2.append({"N": "N", "1": "E1", "2": "E2", "F": "EN"}[c])
                    prev = c
                yield evs2


def mkq(mm, s):
    return lambda rng: q(rand_f(rng, -50, 50), mm, s)


def mkf(rng):
    return rand_f(rng, -50, 50)


def mkstate(rng):
    return state(rand_f(rng, -50, 50), rand_f(rng, -50, 50), rand_f(rng, -50, 50))


K9 = lambda rng: " ".join(rand_f(rng, -3, 3) for _ in range(9))

# (prefix builder, value maker, events that reset to "fresh", ignores absent?)
def stateful_specs(rng):
    return [
        ("pid", lambda: "ss pid %s %s %s %s" % (mkf(rng), rand_f(rng, -3, 3), rand_f(rng, -3, 3), rand_f(rng, -3, 3)), mkf, ("N", "E"), False),
        ("cpidP", lambda: "ss cpid P%s %s" % (mkf(rng), K9(rng)), mkstate, ("N", "E"), False),
        ("cpidV", lambda: "ss cpid V%s %s" % (mkf(rng), K9(rng)), mkstate, ("N", "E"), False),
        ("cpidA", lambda: "ss cpid A%s %s" % (mkf(rng), K9(rng)), mkstate, ("N", "E"), False),
        ("ewmaf", lambda: "ss ewma f %s" % f2h(rng.uniform(0, 1)), mkf, ("E",), True),
        ("ewmaq", lambda: "ss ewma q %s" % f2h(rng.uniform(0, 1)), mkq(1, -1), ("E",), True),
        ("maf", lambda: "ss ma f %d" % rng.choice([1, 1_500_000_000, 3_000_000_000, 10 ** 12]), mkf, ("E",), True),
        ("maq", lambda: "ss ma q %d" % rng.choice([1, 1_500_000_000, 3_000_000_000, 10 ** 12]), mkq(1, -1), ("E",), True),
        ("int", lambda: "ss int", mkq(1, 0), ("N", "E"), False),
        ("drv", lambda: "ss drv", mkq(1, 0), ("N", "E"), False),
        ("a2s", lambda: "ss a2s", mkq(1, -2), ("E",), True),
        ("v2s", lambda: "ss v2s", mkq(1, -1), ("E",), True),
        ("p2s", lambda: "ss p2s", mkq(1, 0), ("E",), True),
        ("f2q", lambda: "ss f2q 1,-1", mkf, ("N", "E", "S"), False),
        ("q2f", lambda: "ss q2f", mkq(2, -1), ("N", "E", "S"), False),
    ]


def wrap_ev(name, ev):
    return ("in:" + ev) if name.startswith("cpid") else ev


def gen_C05(rng, tier):
    L = []
    rel = []
    specs = stateful_specs(rng)
    maxlen = n_of(tier, 4, 5)
    for (name, mkprefix, mkval, resets, ignores_absent) in specs:
        prefix = mkprefix()
        for evs in all_histories(rng, maxlen, mkval):
            L.append(prefix + " " + " ".join(wrap_ev(name, e) for e in evs))
        # random longer histories with their metamorphic companions
        for _ in range(n_of(tier, 40, 300)):
            prefix = mkprefix()
            n = rng.randint(6, 48)
            evs = history(rng, n, mkval, weights=(0.6, 0.16, 0.12, 0.12))
            ia = len(L)
            L.append(prefix + " " + " ".join(wrap_ev(name, e) for e in evs))
            # suffix from a reset event
            ks = [k for k, e in enumerate(evs) if k > 0 and ((e == "N" and "N" in resets) or (e[0] == "E" and "E" in resets) or (e[0] == "S" and "S" in resets))]
            if ks:
                k = rng.choice(ks)
                rel.append(("suffix", ia, len(L), k))
                L.append(prefix + " " + " ".join(wrap_ev(name, e) for e in evs[k:]))
            if ignores_absent and "N" in evs:
                keep = [k for k, e in enumerate(evs) if e != "N"]
                if keep:
                    rel.append(("absent_deleted", ia, len(L), keep))
                    L.append(prefix + " " + " ".join(wrap_ev(name, evs[k]) for k in keep))
    # freeze: all condition histories x input categories
    CONDS = ["E1", "N", "S@1@true", "S@1@false"]
    for ty, mk in (("f", mkf), ("q", mkq(1, 0))):
        for n in range(1, n_of(tier, 4, 5) + 1):
            for cs in itertools.product(CONDS, repeat=n):
                evs = []
                for i, c in enumerate(cs):
                    inp = rng.choice(["S", "S", "S", "N", "E2"])
                    inp = out_some(rng.choice([100 + i, 100 + i, 100 - i, 100]), mk(rng)) if inp == "S" else inp
                    evs.append(c + ";" + inp)
                L.append("ss freeze %s %s" % (ty, " ".join(evs)))
        for _ in range(n_of(tier, 100, 1000)):
            evs = []
            for i in range(rng.randint(5, 48)):
                c = rng.choice(["S@%d@true" % i, "S@%d@false" % i, "S@%d@false" % i, "N", "E1"]) if rng.random() < 0.3 else rng.choice(["S@%d@true" % i, "S@%d@false" % i])
                inp = rng.choice(["S", "S", "S", "N", "E2"])
                inp = out_some(rng.choice([100 + i, 100 + i, 100 - i, 37]), mk(rng)) if inp == "S" else inp
                evs.append(c + ";" + inp)
            L.append("ss freeze %s %s" % (ty, " ".join(evs)))
    # a non-finite sample right after an error / absent event: the cached error must be cleared all the same
    for bad in ("7f800000", "ff800000", "7fc00000"):
        for pre in ("E1", "EN", "N"):
            L.append("ss pid %s %s %s %s S@1000000000@3f800000 %s S@2000000000@%s S@3000000000@40000000" % (mkf(rng), rand_f(rng, -3, 3), rand_f(rng, -3, 3), rand_f(rng, -3, 3), pre, bad))
            L.append("ss ewma f 3f000000 S@1000000000@3f800000 %s S@2000000000@%s S@3000000000@40000000" % (pre, bad))
            L.append("ss ma f 1500000000 S@1000000000@3f800000 %s S@2000000000@%s S@3000000000@40000000" % (pre, bad))
            L.append("ss int S@1000000000@Q:3f800000:1,0 %s S@2000000000@Q:%s:1,0 S@3000000000@Q:40000000:1,0" % (pre, bad))
            L.append("ss drv S@1000000000@Q:3f800000:1,0 %s S@2000000000@Q:%s:1,0 S@3000000000@Q:40000000:1,0" % (pre, bad))
    # regression corpus for the repaired stale-error defect (F1)
    L.append("ss int E1 S@1000000000@Q:3f800000:1,0 S@2000000000@Q:40000000:1,0")
    L.append("ss drv E1 S@1000000000@Q:3f800000:1,0 S@2000000000@Q:40000000:1,0")
    RELATIONS["C05"] = rel
    return L


def project_C05(case, line):
    """freeze: the property pins `get()` at updates whose condition is false (the input's output at that update), at updates whose
    condition is ABSENT (absent), and while the condition stays true after a false one. What it returns at an update whose condition is an
    ERROR — and while the condition then stays true — is not pinned (the crate returns the condition's error and keeps it; returning the
    last unfrozen value would be just as conformant): those tokens are masked."""
    if not case.startswith("ss freeze "):
        return line
    evs = case.split(" ")[3:]
    toks = line.split(" ")
    if len(toks) != len(evs):
        return line
    out = []
    unspecified = False
    for ev, tok in zip(evs, toks):
        cond = ev.split(";")[0]
        if cond.startswith("E"):
            unspecified = True
        elif cond == "N" or cond.endswith("@false"):
            unspecified = False
        out.append("unspecified" if unspecified and not tok.startswith("PANIC") else tok)
    return " ".join(out)


def get_part(tok):
    return tok.split("/", 1)[1] if "/" in tok else tok


def oracle_C05(lines, impl):
    """metamorphic checks on the implementation's own outputs + purity + no-stale-error"""
    bad = []
    for c, o in zip(lines, impl):
        if "!impure" in o:
            bad.append((c, "get() returned different values between updates"))
        if not c.startswith("ss ") or c.startswith("ss freeze") or "PANIC" in o:
            continue
        evs = [e for e in c.split(" ") if e in ("N", "E1", "E2") or e.startswith("S@") or e.startswith("in:")]
        toks = o.split(" ")
        if len(evs) != len(toks):
            continue
        for e, t in zip(evs, toks):
            e = e[3:] if e.startswith("in:") else e
            g = get_part(t)
            if g in ("E1", "E2", "EN") and e != g:
                bad.append((c, "stale or foreign error: get()=%s after input event %s" % (g, e)))
                break
    for (kind, ia, ib, extra) in RELATIONS.get("C05", []):
        if ia >= len(impl) or ib >= len(impl):
            continue
        A, B = impl[ia].split(" "), impl[ib].split(" ")
        if "PANIC" in impl[ia] or "PANIC" in impl[ib]:
            continue
        if kind == "suffix":
            k = extra
            if A[k:] != B:
                bad.append((lines[ia], "reset does not erase history: outputs after event %d differ from a fresh stream fed the suffix: %s vs %s" % (k, A[k:][:4], B[:4])))
        elif kind == "absent_deleted":
            keep = extra
            if [A[k] for k in keep] != B:
                bad.append((lines[ia], "deleting absent events changed later outputs"))
    return bad


# ------------------------------------------------------------------------------------------- C04
def scale_tok(tok, k):
    """multiply the f32 payload of an Output<f> token by 2^k (exact)"""
    if tok.startswith("S@"):
        _, t, v = tok.split("@", 2)
        return "S@%s@%s" % (t, f2h(h2f(v) * (2.0 ** k)))
    return tok


def q_tok(tok):
    """Output<f> token -> Output<q> token in millimetres"""
    if tok.startswith("S@"):
        _, t, v = tok.split("@", 2)
        return "S@%s@Q:%s:1,0" % (t, v)
    return tok


def gen_C04(rng, tier):
    L = []
    rel = []
    maxn = n_of(tier, 64, 256)
    for evs in all_histories(rng, 4, mkf):
        L.append("ss pid %s %s %s %s %s" % (mkf(rng), rand_f(rng, -3, 3), rand_f(rng, -3, 3), rand_f(rng, -3, 3), " ".join(evs)))
    for _ in range(n_of(tier, 400, 3000)):
        n = rng.randint(2, maxn)
        w = rng.choice([(0.9, 0.04, 0.03, 0.03), (1.0, 0, 0, 0), (0.7, 0.12, 0.09, 0.09)])
        evs = history(rng, n, mkf, weights=w)
        sp, kp, ki, kd = mkf(rng), rand_f(rng, -3, 3), rand_f(rng, -3, 3), rand_f(rng, -3, 3)
        if rng.random() < 0.12:      # gain ties and zeros: ki = -kd (their SUM is zero but neither is), single non-zero gain
            g = rand_f(rng, -3, 3)
            kp, ki, kd = rng.choice([(kp, g, "%08x" % (int(g, 16) ^ 0x80000000)), (f2h(0.0), g, "%08x" % (int(g, 16) ^ 0x80000000)),
                                     (kp, f2h(0.0), f2h(0.0)), (f2h(0.0), ki, f2h(0.0)), (f2h(0.0), f2h(0.0), kd), (kp, ki, f2h(0.0))])
        ia = len(L)
        L.append("ss pid %s %s %s %s %s" % (sp, kp, ki, kd, " ".join(evs)))
        c = rng.randint(-10 ** 15, 10 ** 15)
        rel.append(("shift", ia, len(L), c))
        L.append("ss pid %s %s %s %s %s" % (sp, kp, ki, kd, " ".join(shift_tok(e, c) for e in evs)))
        k = rng.randint(-8, 8) if rng.random() < 0.8 else rng.randint(-40, -18)   # also far down: errors below f32::EPSILON
        rel.append(("scale", ia, len(L), k))
        L.append("ss pid %s %s %s %s %s" % (f2h(h2f(sp) * 2.0 ** k), kp, ki, kd, " ".join(scale_tok(e, k) for e in evs)))
        # the same controller assembled from the crate's own streams (examples/pid.rs wiring), same history
        rel.append(("composed", ia, len(L), None))
        L.append("ss spid %s %s %s %s %s" % (sp, kp, ki, kd, " ".join(q_tok(e) for e in evs)))
    # creeping inputs: consecutive samples a few ulps apart (error changes far below f32::EPSILON but not zero), sampled fast and
    # slowly; and plateaus (exactly repeated values) — the backward difference must still be (e_i - e_{i-1}) / dt
    for _ in range(n_of(tier, 60, 400)):
        n = rng.randint(3, 24)
        bits = int(f2h(rng.choice([-1, 1]) * math.exp(rng.uniform(math.log(1e-3), math.log(2.0)))), 16)
        t = rng.randint(-10 ** 12, 10 ** 12)
        evs = []
        for i in range(n):
            t += rng.choice([1000, 10 ** 6, log_dt(rng)])
            bits += rng.choice([0, 1, 1, 2, 3, -1, -2])
            evs.append("S@%d@%08x" % (t, bits))
            if rng.random() < 0.06:
                evs.append(rng.choice(["N", "E1", "EN"]))
        sp = rng.choice([f2h(0.0), mkf(rng), "%08x" % (bits + 5)])
        L.append("ss pid %s %s %s %s %s" % (sp, rand_f(rng, -3, 3), rand_f(rng, -3, 3), rng.choice([f2h(1.0), rand_f(rng, -3, 3)]), " ".join(evs)))
    RELATIONS["C04"] = rel
    return L


def oracle_C04(lines, impl):
    bad = []
    for (kind, ia, ib, extra) in RELATIONS.get("C04", []):
        if ia >= len(impl) or ib >= len(impl) or "PANIC" in impl[ia] or "PANIC" in impl[ib]:
            continue
        A, B = impl[ia].split(" "), impl[ib].split(" ")
        if kind == "shift":
            if [shift_tok(get_part(t), extra) for t in A] != [get_part(t) for t in B] or [t.split("/")[0] for t in A] != [t.split("/")[0] for t in B]:
                bad.append((lines[ia], "output changed under a constant shift of all timestamps by %d" % extra))
        elif kind == "composed":
            evs = lines[ia].split(" ")[6:]
            for e, ta, tb in zip(evs, A, B):
                if not e.startswith("S@"):
                    continue        # at absent inputs the assembled controller reports FromNone by design
                ga, gb = get_part(ta), get_part(tb)
                if ga == gb:
                    continue
                if ga.startswith("S@") and gb.startswith("S@") and ga.split("@")[1] == gb.split("@")[1]:
                    va, vb = h2f(ga.split("@")[2]), h2f(gb.split("@")[2])
                    if va == vb or (va != va and vb != vb):
                        continue    # equal as numbers (-0/+0, NaN)
                bad.append((lines[ia], "PID stream and the controller assembled from the crate's own streams disagree after a present input: %s vs %s" % (ga, gb)))
                break
        elif kind == "scale":
            for ta, tb in zip(A, B):
                ga, gb = get_part(ta), get_part(tb)
                if ga.startswith("S@") and gb.startswith("S@"):
                    va, vb = h2f(ga.split("@")[2]), h2f(gb.split("@")[2])
                    exp = va * 2.0 ** extra
                    # exact scaling is promised barring over/underflow: skip outputs in (or scaled from) the subnormal neighbourhood, and
                    # a zero that is an underflowed product in one run only (sub-epsilon gains / values are part of the workload)
                    if va == va and abs(exp) < 1e30 and (abs(va) > 1e-20 or va == 0) and (abs(vb) > 1e-20 or vb == 0) \
                            and not ((va == 0) != (vb == 0)) and f2h(exp) != f2h(vb) and not (exp == 0 and vb == 0):
                        bad.append((lines[ia], "scaling setpoint and inputs by 2^%d did not scale the output exactly: %r vs %r" % (extra, exp, vb)))
                        break
                elif ga != gb:
                    bad.append((lines[ia], "category changed under power-of-two scaling"))
                    break
    return bad


# ------------------------------------------------------------------------------------------- C10
def gen_C10(rng, tier):
    L = []
    rel = []
    maxn = n_of(tier, 64, 128)

    def signal(mm, s):
        # nonlinear signal so that rectangle != trapezoid and first != second differences
        a, b, c = rng.uniform(-3, 3), rng.uniform(-3, 3), rng.uniform(-3, 3)
        st = {"i": 0, "last": None}
        def mk(r):
            st["i"] += 1
            x = st["i"] * 0.37
            # the magnitude of the signal sometimes changes by many orders between samples (a residue carried over from a run of large
            # values — a compensation term, a cached partial sum — then dominates a later run of tiny ones)
            if r.random() < 0.04:
                st["scale"] = 10.0 ** r.randint(-9, 4)
            # plateaus: sometimes the reading is EXACTLY the previous one (a sensor at rest) although time has moved on
            if st["last"] is not None and r.random() < 0.1:
                return st["last"]
            # zero-area trapezoids and zero differences (round-10 seeded defect C10_r10m1: "a trapezoid of zero area changes nothing, skip
            # the bookkeeping"): an exact sign reversal (v, -v), a signal at rest at exactly +0.0 / -0.0 for several samples
            u = r.random()
            if st.get("lastv") is not None and u < 0.06:
                st["lastv"] = -st["lastv"]
            elif u < 0.12 or (st.get("lastv") == 0.0 and u < 0.5):
                st["lastv"] = r.choice([0.0, 0.0, -0.0])
            else:
                st["lastv"] = h2f(f2h(st.get("scale", 1.0) * (a * x * x + b * math.sin(x) + c + r.uniform(-0.5, 0.5))))
            st["last"] = q(f2h(st["lastv"]), mm, s)
            return st["last"]
        return mk
    for name, (mm, s) in (("int", (None, None)), ("drv", (None, None)), ("a2s", (1, -2)), ("v2s", (1, -1)), ("p2s", (1, 0))):
        units = GRID if mm is None else [(mm, s)]
        for (um, us) in units:
            for _ in range(n_of(tier, 6, 30) if mm is None else n_of(tier, 200, 1500)):
                n = rng.randint(2, maxn)
                w = rng.choice([(1.0, 0, 0, 0), (0.85, 0.07, 0.04, 0.04)])
                evs = history(rng, n, signal(um, us), weights=w)
                ia = len(L)
                L.append("ss %s %s" % (name, " ".join(evs)))
                c = rng.randint(-10 ** 15, 10 ** 15)
                rel.append(("shift", ia, len(L), c))
                L.append("ss %s %s" % (name, " ".join(shift_tok(e, c) for e in evs)))
        if mm is not None:
            # wrongly dimensioned input must panic (checking enabled)
            for (um, us) in GRID:
                evs = history(rng, 3, signal(um, us), weights=(1.0, 0, 0, 0))
                L.append("ss %s %s" % (name, " ".join(evs)))
        for evs in all_histories(rng, 4, signal(*(units[0] if mm is not None else (1, 0)))):
            L.append("ss %s %s" % (name, " ".join(evs)))
    # unit changes mid-stream in integral/derivative (prev + cur panics)
    L.append("ss int S@0@Q:3f800000:1,0 S@1000000000@Q:3f800000:1,-1")
    L.append("ss drv S@0@Q:3f800000:1,0 S@1000000000@Q:3f800000:1,-1")
    RELATIONS["C10"] = rel
    return L


def oracle_shift(pid):
    def orc(lines, impl):
        bad = []
        for (kind, ia, ib, extra) in RELATIONS.get(pid, []):
            if kind != "shift" or ia >= len(impl) or ib >= len(impl) or "PANIC" in impl[ia] or "PANIC" in impl[ib]:
                continue
            A, B = impl[ia].split(" "), impl[ib].split(" ")
            if [shift_tok(get_part(t), extra) for t in A] != [get_part(t) for t in B]:
                bad.append((lines[ia], "output changed under a constant shift of all timestamps by %d" % extra))
        return bad
    return orc


# ------------------------------------------------------------------------------------------- C11
def gen_C11(rng, tier):
    L = []
    maxn = n_of(tier, 48, 96)
    for kind in "PVA":
        # exhaustive short input histories (present/absent/error) for each kind
        for evs in all_histories(rng, 4, mkstate):
            L.append("ss cpid %s%s %s %s" % (kind, mkf(rng), K9(rng), " ".join("in:" + e for e in evs)))
        for _ in range(n_of(tier, 300, 2500)):
            cmd = kind + mkf(rng)
            cur = cmd
            t = rng.randint(-10 ** 12, 10 ** 12)
            evs = []
            for _ in range(rng.randint(3, maxn)):
                r = rng.random()
                if r < 0.62:
                    t += log_dt(rng)
                    evs.append("in:S@%d@%s" % (t, mkstate(rng)))
                elif r < 0.68:
                    evs.append("in:N")
                elif r < 0.74:
                    evs.append("in:" + rng.choice(["E1", "E2"]))
                elif r < 0.80:
                    evs.append("set:" + cur)                       # same command: no-op
                elif r < 0.86:
                    cur = rng.choice("PVA") + mkf(rng)             # different command: restart
                    evs.append("set:" + cur)
                elif r < 0.90:
                    c2 = rng.choice([cur, rng.choice("PVA") + mkf(rng)])
                    evs.append("fol:" + rng.choice(["S@%d@%s" % (t, c2), "S@%d@%s" % (rng.choice([t, 0, -5, t - rng.randint(1, 10 ** 9)]), c2), "N", "E1", "EN"]))
                    if True:
                        pass
                elif r < 0.94:
                    c2 = rng.choice([cur, rng.choice("PVA") + mkf(rng)])
                    # the followed command's OWN timestamp is irrelevant to the controller (it is `set` whenever present): also earlier / repeated stamps
                    evs.append("cs:" + rng.choice(["S@%d@%s" % (t, c2), "S@%d@%s" % (rng.choice([t, 0, -5, t - rng.randint(1, 10 ** 9)]), c2), "N", "E2", "EN"]))
                elif r < 0.96:
                    evs.append("unfol")
                elif r < 0.98:
                    evs.append("lr")
                else:
                    evs.append("reset")
            L.append("ss cpid %s %s %s" % (cmd, K9(rng), " ".join(evs)))
    # NaN command: `command != self.command` is always true
    L.append("ss cpid P7fc00000 %s in:S@1@%s set:P7fc00000 in:S@2@%s in:S@3@%s" % (K9(rng), mkstate(rng), mkstate(rng), mkstate(rng)))
    return L


# ------------------------------------------------------------------------------------------- C12
def gen_C12(rng, tier):
    L = []
    maxn = n_of(tier, 64, 128)
    windows = [1, 2, 1000, 999_999_999, 1_000_000_000, 1_500_000_000, 60 * 10 ** 9, 7200 * 10 ** 9]
    smooth = ["00000000", "3f800000", f2h(0.5), f2h(0.25), f2h(0.9), f2h(0.01)]
    for ty, mk in (("f", mkf), ("q", mkq(1, -1))):
        for evs in all_histories(rng, 4, mk):
            L.append("ss ma %s %d %s" % (ty, rng.choice(windows), " ".join(evs)))
            L.append("ss ewma %s %s %s" % (ty, rng.choice(smooth), " ".join(evs)))
        for _ in range(n_of(tier, 300, 2500)):
            n = rng.randint(2, maxn)
            w = rng.choice([(1.0, 0, 0, 0), (0.85, 0.07, 0.04, 0.04)])
            dtf = rng.choice([None, lambda r: r.choice([1, 10 ** 6, 10 ** 9, 2 * 10 ** 9]), lambda r: r.randint(1, 3 * 10 ** 9)])
            evs = history(rng, n, mk, weights=w, dt=dtf, repeat_ts=True)
            win = rng.choice(windows + [rng.randint(1, 10 ** 10)])
            L.append("ss ma %s %d %s" % (ty, win, " ".join(evs)))
            sm = rng.choice(smooth + [f2h(rng.uniform(0, 1))])
            L.append("ss ewma %s %s %s" % (ty, sm, " ".join(evs)))
        # constant input
        for _ in range(n_of(tier, 30, 200)):
            v = mk(rng)
            t = 0
            evs = []
            for _ in range(rng.randint(2, 20)):
                t += log_dt(rng)
                evs.append("S@%d@%s" % (t, v))
            L.append("ss ma %s %d %s" % (ty, rng.choice(windows), " ".join(evs)))
            L.append("ss ewma %s %s %s" % (ty, rng.choice(smooth), " ".join(evs)))
    return L


def payload_f(tok):
    """f32 value of an Output token with f or q payload, or None"""
    if not tok.startswith("S@"):
        return None
    v = tok.split("@", 2)[2]
    if v.startswith("Q:"):
        v = v.split(":")[1]
    return h2f(v)


def oracle_C12(lines, impl):
    """range/convexity on the implementation's own numbers; no panic for positive windows"""
    bad = []
    for c, o in zip(lines, impl):
        if not (c.startswith("ss ma ") or c.startswith("ss ewma ")):
            continue
        if "PANIC" in o:
            bad.append((c, "update panicked: " + o.split(" ")[-1]))
            continue
        parts = c.split(" ")
        evs = parts[4:]
        toks = o.split(" ")
        lo = hi = None
        for e, t in zip(evs, toks):
            if e in ("E1", "E2"):
                lo = hi = None
                continue
            x = payload_f(e)
            if x is None:
                continue
            lo = x if lo is None else min(lo, x)
            hi = x if hi is None else max(hi, x)
            y = payload_f(get_part(t))
            if y is None or y != y:
                continue
            tol = 1e-3 * max(abs(lo), abs(hi), 1e-3)
            if not (lo - tol <= y <= hi + tol):
                bad.append((c, "output %r outside the range [%r, %r] of the contributing samples" % (y, lo, hi)))
                break
    return bad


GENERATORS.update({"C05": gen_C05, "C04": gen_C04, "C10": gen_C10, "C11": gen_C11, "C12": gen_C12})


# =========================================================================== motion profiles (C06, C07)
HARNESS_BIN = None   # set by check.py once the default harness is built


def mp_inputs(rng):
    """(start, end, max_vel, max_acc) tokens; mostly accepted moves, some rejected"""
    r = rng.random()
    vmax = math.exp(rng.uniform(math.log(1e-2), math.log(1e3)))
    amax = math.exp(rng.uniform(math.log(1e-2), math.log(1e3)))
    p0 = rng.uniform(-1e4, 1e4) if rng.random() < 0.7 else float(rng.randint(-50, 50))
    dacc = vmax * vmax / amax
    if r < 0.75:
        disp = rng.choice([-1, 1]) * (dacc * rng.uniform(1.05, 4) + rng.uniform(0, 10))
    elif r < 0.85:
        disp = rng.choice([-1, 1]) * dacc * rng.uniform(0.0, 0.95)     # too short: rejected
    else:
        disp = rng.uniform(-1e3, 1e3)
    p1 = p0 + disp
    sgn = -1.0 if p1 < p0 else 1.0
    v0 = rng.choice([0.0, 0.0, sgn * vmax * rng.uniform(0, 1), sgn * vmax, -sgn * vmax * rng.uniform(0, 0.5), rng.uniform(-2, 2) * vmax])
    v1 = rng.choice([0.0, 0.0, 0.0, sgn * vmax * rng.uniform(0, 1), rng.uniform(-1.5, 1.5) * vmax])
    a0 = rng.choice([0.0, 0.0, rng.uniform(-1, 1)])
    a1 = rng.choice([0.0, 0.0, 0.0, rng.uniform(-1, 1)])
    if rng.random() < 0.12 and v0 != 0.0:      # exact ties between |start velocity| and |end velocity| (equal, and exactly negated)
        v1 = rng.choice([v0, -v0])
    if rng.random() < 0.08:      # end derivatives that are non-zero but below f32::EPSILON: still the "lowest non-zero derivative"
        tiny = rng.choice([5e-8, -5e-8, 1e-10, -1e-10, 1e-39, -0.0])
        if rng.random() < 0.5:
            v1 = tiny
        else:
            v1, a1 = 0.0, tiny
    sv = rng.choice([1, 1, 1, -1])  # limits may be given negative: abs() is taken
    return (state(p0, v0, a0), state(p1, v1, a1), q(sv * vmax, 1, -1), q(sv * amax, 1, -2))


def mp_boundaries(lines):
    """run the real constructor to learn t1,t2,t3 (private fields, printed by the harness from Debug)"""
    if not HARNESS_BIN:
        return [None] * len(lines)
    import subprocess
    out = subprocess.run([HARNESS_BIN], input="\n".join(lines) + "\n", capture_output=True, text=True).stdout.split("\n")
    res = []
    for o in out[:len(lines)]:
        toks = o.split(" ")
        if len(toks) >= 3 and all(t.startswith("T:") for t in toks[:3]):
            res.append(tuple(int(t[2:]) for t in toks[:3]))
        else:
            res.append(None)
    return res


def query_times(rng, b, dense):
    ts = [-1, 0, 1, I64_MIN, I64_MAX, -10 ** 12, rng.randint(-10 ** 6, -1), I64_MIN + 1, I64_MIN + rng.randint(2, 10 ** 10), I64_MAX - 1]
    if b:
        t1, t2, t3 = b
        for x in (t1, t2, t3):
            ts += [x - 1, x, x + 1]
        ts += [t1 // 2, (t1 + t2) // 2, (t2 + t3) // 2, t3 + 10 ** 9, t3 * 3 + 7]
        for _ in range(dense):
            ts.append(rng.randint(0, max(1, t3)))
    else:
        ts += [10 ** 9, 10 ** 10]
    # (a degenerate profile — zero velocity limit — has t2 = t3 = i64::MAX: keep every query time an i64)
    return [min(max(x, I64_MIN), I64_MAX) for x in ts]


def neg_state(tok):
    p, v, a = tok.split("/")
    flip = lambda h: "%08x" % (int(h, 16) ^ 0x80000000)
    return "%s/%s/%s" % (flip(p), flip(v), a)


def gen_mp(rng, tier, dense, pid):
    rel = []
    ins = [mp_inputs(rng) for _ in range(n_of(tier, 400, 3000))]
    # fixed regression/corner inputs
    ins.append((state(0.0, 0.0, 0.0), state(3.0, 0.0, 0.0), q(0.1, 1, -1), q(0.01, 1, -2)))
    ins.append((state(0.0, 0.0, 0.0), state(-3.0, 0.0, 0.0), q(0.1, 1, -1), q(0.01, 1, -2)))
    ins.append((state(0.0, 0.1, 0.0), state(0.0, 0.1, 0.0), q(0.1, 1, -1), q(0.01, 1, -2)))      # zero displacement (F5)
    ins.append((state(0.0, -0.1, 0.0), state(0.0, -0.1, 0.0), q(0.1, 1, -1), q(0.01, 1, -2)))
    ins.append((state(1.0, 0.0, 0.0), state(1.0, 0.0, 0.0), q(0.1, 1, -1), q(0.01, 1, -2)))
    ins.append((state(0.0, 0.0, 0.0), state(3.0, 0.0, 0.0), q(0.1, 1, -1), q(0.0, 1, -2)))       # zero acceleration
    # limits given as -0.0 / +0.0 / NaN: `abs` of the limit must behave like f32::abs in EVERY configuration (regression for the repaired
    # no_std abs: with -0.0 the std build accepted — infinite cruise — and the no_std builds panicked)
    for lim in ("80000000", "00000000", "7fc00000", "ffc00000"):
        ins.append((state(0.0, 0.0, 0.0), state(3.0, 0.0, 0.0), "Q:%s:1,-1" % lim, q(0.01, 1, -2)))
        ins.append((state(0.0, 0.0, 0.0), state(3.0, 0.0, 0.0), q(0.1, 1, -1), "Q:%s:1,-2" % lim))
    ins.append((state(0.0, 0.0, 0.0), state(3.0, 0.0, 0.0), q(0.1, 1, 0), q(0.01, 1, -2)))       # wrong unit
    ins.append((state(0.0, 0.0, 0.0), state(3.0, 0.0, 0.0), q(0.1, 1, -1), q(0.01, 1, -1)))      # wrong unit
    for _ in range(n_of(tier, 40, 200)):
        vmax = math.exp(rng.uniform(math.log(1e-2), math.log(1e1)))
        amax = math.exp(rng.uniform(math.log(1e-2), math.log(1e1)))
        sgn = rng.choice([-1.0, 1.0])
        # rest-to-rest move whose cruise phase is a hair shorter / longer than zero (triangular profile boundary)
        for eps in (-9e-5, -5e-5, -1e-5, -1e-6, 0.0, 1e-6, 1e-4):
            disp = sgn * (vmax * vmax / amax + vmax * eps)
            ins.append((state(0.0, 0.0, 0.0), state(disp, 0.0, 0.0), q(vmax, 1, -1), q(amax, 1, -2)))
        # moves that are short of the accelerate-then-decelerate distance by a small RELATIVE amount (far above rounding): rejected
        p0 = rng.choice([0.0, rng.uniform(-100, 100)])
        for rel_short in (2e-4, 1e-3, 1.5e-3, 5e-3, 2e-2):
            disp = sgn * (vmax * vmax / amax) * (1.0 - rel_short)
            ins.append((state(p0, 0.0, 0.0), state(p0 + disp, 0.0, 0.0), q(vmax, 1, -1), q(amax, 1, -2)))
        # start / end speed exactly at the limit (zero-length acceleration or deceleration phase)
        p1 = sgn * (3 * vmax * vmax / amax + 1.0)
        ins.append((state(0.0, 0.0, 0.0), state(p1, sgn * vmax, 0.0), q(vmax, 1, -1), q(amax, 1, -2)))
        ins.append((state(0.0, sgn * vmax, 0.0), state(p1, 0.0, 0.0), q(vmax, 1, -1), q(amax, 1, -2)))
        ins.append((state(0.0, sgn * vmax, 0.0), state(p1, sgn * vmax, 0.0), q(vmax, 1, -1), q(amax, 1, -2)))
    heads = ["mp %s %s %s %s" % t for t in ins]
    bs = mp_boundaries(heads)
    L = []
    for h, b, t in zip(heads, bs, ins):
        ts = query_times(rng, b, dense)
        ia = len(L)
        L.append(h + " " + " ".join(str(x) for x in ts))
        # mirror symmetry: negate all positions and velocities. Only for states whose acceleration fields are zero
        # (a non-zero end acceleration becomes the end command unchanged, so "every output is negated" cannot be
        # meant for those inputs)
        if pid == "C07" and t[0].endswith("/00000000") and t[1].endswith("/00000000"):
            rel.append(("mirror", ia, len(L), None))
            L.append("mp %s %s %s %s %s" % (neg_state(t[0]), neg_state(t[1]), t[2], t[3], " ".join(str(x) for x in ts)))
    RELATIONS[pid] = rel
    return L


def gen_C06(rng, tier):
    return gen_mp(rng, tier, 4, "C06")


def gen_C07(rng, tier):
    return gen_mp(rng, tier, n_of(tier, 24, 120), "C07")


def parse_mp_tok(tok):
    """piece/mode/acc/vel/pos/hist -> dict"""
    parts = tok.split("/")
    if len(parts) != 6:
        return None
    def qv(x):
        return None if x == "none" else h2f(x.split(":")[1])
    return {"piece": parts[0], "mode": parts[1], "acc": qv(parts[2]), "vel": qv(parts[3]), "pos": qv(parts[4]), "hist": parts[5],
            "raw": parts}


def flip_q(x):
    if x == "none":
        return x
    a = x.split(":")
    if a[1] == "nan":
        return x
    a[1] = "%08x" % (int(a[1], 16) ^ 0x80000000)
    return ":".join(a)


def flip_cmd_datum(x):
    if x == "none":
        return x
    t, c = x.split("@")
    if c[1:] == "nan":
        return x
    return "%s@%s%08x" % (t, c[0], int(c[1:], 16) ^ 0x80000000)


def oracle_C06(lines, impl):
    """structural agreement of the six accessors on the implementation's own outputs"""
    bad = []
    order = {"BS": 0, "IA": 1, "CV": 2, "EA": 3, "CO": 4}
    for c, o in zip(lines, impl):
        if not c.startswith("mp ") or o.startswith("PANIC") or o in ("NOIMPL", "BADLINE"):
            continue
        ct = c.split(" ")
        ts = [int(x) for x in ct[5:]]
        toks = o.split(" ")
        if "PANIC" in o:
            k = len(toks) - 6
            bad.append((c, "an accessor of an accepted profile panicked (%s) at query time %s" % (toks[-1], ts[k] if 0 <= k < len(ts) else "?")))
            continue
        if len(toks) != 5 + len(ts):
            continue
        t1, t2, t3 = (int(x[2:]) for x in toks[:3])
        if not (0 <= t1 <= t2 <= t3):
            bad.append((c, "constructor returned t1,t2,t3 = %d,%d,%d not ordered" % (t1, t2, t3)))
            continue
        endcmd = toks[4]
        want_end = lowest_nonzero_cmd(ct[2])
        if endcmd != want_end and "nan" not in endcmd:
            bad.append((c, "end command %s is not the end state's lowest non-zero derivative %s" % (endcmd, want_end)))
            continue
        seq = sorted(zip(ts, toks[5:]))
        lastrank = -1
        for t, tk in seq:
            d = parse_mp_tok(tk)
            if d is None:
                bad.append((c, "malformed accessor token")); break
            r = order[d["piece"]]
            if r < lastrank:
                bad.append((c, "pieces go back as t grows at t=%d" % t)); break
            lastrank = r
            neg = t < 0
            if (d["piece"] == "BS") != neg or (d["mode"] == "none") != neg or (d["raw"][2] == "none") != neg or (d["hist"] == "none") != neg:
                bad.append((c, "before-start/absent accessors disagree with t<0 at t=%d: %s" % (t, tk))); break
            if neg:
                continue
            want_mode = {"IA": "A", "CV": "V", "EA": "A", "CO": endcmd[0]}[d["piece"]]
            if d["mode"] != want_mode:
                bad.append((c, "mode %s does not match piece %s at t=%d" % (d["mode"], d["piece"], t))); break
            if d["piece"] != "CO" and (d["raw"][3] == "none" or d["raw"][4] == "none"):
                bad.append((c, "velocity/position absent during the move at t=%d" % t)); break
            if d["piece"] == "CO":
                if (d["raw"][3] != "none") != (endcmd[0] in "PV") or (d["raw"][4] != "none") != (endcmd[0] == "P"):
                    bad.append((c, "presence after completion does not follow the end command at t=%d" % t)); break
            ht, hc = d["hist"].split("@")
            src = {"A": d["raw"][2], "V": d["raw"][3], "P": d["raw"][4]}[d["mode"]]
            if int(ht) != t or hc[0] != d["mode"] or src == "none" or hc[1:] != src.split(":")[1]:
                bad.append((c, "history %s is not the matching accessor %s stamped with t=%d" % (d["hist"], src, t))); break
            if d["piece"] == "CO" and hc != endcmd and not (hc[1:] == "nan"):
                bad.append((c, "history after completion %s is not the end command %s" % (hc, endcmd))); break
    return bad


def oracle_C07(lines, impl):
    """numeric trapezoid checks with generous tolerances + exact mirror symmetry, on the implementation's outputs"""
    bad = []
    parsed = {}
    for k, (c, o) in enumerate(zip(lines, impl)):
        if not c.startswith("mp ") or "PANIC" in o or o in ("NOIMPL", "BADLINE"):
            continue
        ct = c.split(" ")
        ts = [int(x) for x in ct[5:]]
        toks = o.split(" ")
        if len(toks) != 5 + len(ts):
            continue
        t1, t2, t3 = (int(x[2:]) for x in toks[:3])
        p0, v0, _ = [h2f(x) for x in ct[1].split("/")]
        p1, v1, _ = [h2f(x) for x in ct[2].split("/")]
        vmax = abs(h2f(ct[3].split(":")[1])); amax = abs(h2f(ct[4].split(":")[1]))
        if toks[3] == "?" or toks[4] == "?":
            continue        # private fields not observable (changed Debug output, degenerate profile): nothing to check numerically
        a = h2f(toks[3].split(":")[1])
        parsed[k] = toks
        if any(x != x or abs(x) == float("inf") for x in (p0, v0, p1, v1, vmax, amax, a)):
            continue
        sign = -1.0 if p1 < p0 else 1.0
        if a != sign * amax and not (a == 0 and amax == 0):
            bad.append((c, "signed max acceleration %r is not sign(displacement)*|max_acc| = %r" % (a, sign * amax))); continue
        scale = max(abs(p0), abs(p1), abs(v0) * t3 / 1e9, vmax * t3 / 1e9, 1.0)
        vscale = max(vmax, abs(v0), abs(v1), 1e-3)
        eps = 2.0 ** -23
        pts = sorted((t, parse_mp_tok(tk)) for t, tk in zip(ts, toks[5:]) if 0 <= t <= t3 + 1)
        prev = None
        for t, d in pts:
            if d is None or d["piece"] == "CO":
                continue
            if d["acc"] not in (a, 0.0, -a):
                bad.append((c, "acceleration %r at t=%d is not ±max_acc or 0" % (d["acc"], t))); break
            if abs(d["vel"]) > max(vmax, abs(v0), abs(v1)) * (1 + 1e-3) + 1e-6 + 64 * eps * (t3 / 1e9) * amax:
                bad.append((c, "speed %r at t=%d exceeds the limit" % (d["vel"], t))); break
            if t == 0 and (abs(d["vel"] - v0) > 64 * eps * vscale or abs(d["pos"] - p0) > 64 * eps * scale):
                bad.append((c, "profile does not start at the start state: v=%r p=%r" % (d["vel"], d["pos"]))); break
            if prev is not None:
                tp, dp = prev
                dt = (t - tp) / 1e9
                # position is the integral of velocity (trapezoid exact for piecewise-linear v within a piece)
                if dp["piece"] == d["piece"]:
                    want = dt * (dp["vel"] + d["vel"]) / 2
                    got = d["pos"] - dp["pos"]
                    if abs(got - want) > 4096 * eps * scale + 1e-4 * abs(want):
                        bad.append((c, "position is not the integral of velocity between t=%d and t=%d: %r vs %r" % (tp, t, got, want))); break
                # continuity: over 1-2 ns nothing can jump
                if t - tp <= 2 and (abs(d["vel"] - dp["vel"]) > 256 * eps * vscale + abs(a) * 4e-9 or abs(d["pos"] - dp["pos"]) > 4096 * eps * scale):
                    bad.append((c, "discontinuity between t=%d and t=%d: v %r->%r p %r->%r" % (tp, t, dp["vel"], d["vel"], dp["pos"], d["pos"]))); break
            prev = (t, d)
        else:
            # arrival: just before completion the profile is at the goal (tolerance: ns truncation + rounding)
            lastmove = [x for x in pts if x[1] is not None and x[1]["piece"] != "CO" and x[0] >= t3 - 1]
            if lastmove and t3 > 0:
                t, d = lastmove[-1]
                # the phase durations are f32 seconds: their rounding error (eps * t3) times the slope is the
                # magnitude the property's "tolerance proportional to f32 epsilon times the magnitudes involved" allows
                t3s = t3 / 1e9
                tolp = 1e-3 * max(abs(p1 - p0), 1.0) + 4096 * eps * scale + 64 * eps * t3s * vscale
                tolv = 1e-3 * vscale + 64 * eps * t3s * amax
                if abs(d["pos"] - p1) > tolp or abs(d["vel"] - v1) > tolv:
                    bad.append((c, "does not arrive: at t3-1ns p=%r (goal %r) v=%r (goal %r)" % (d["pos"], p1, d["vel"], v1)))
    for (kind, ia, ib, _) in RELATIONS.get("C07", []):
        if kind != "mirror" or ia not in parsed or ib >= len(impl):
            continue
        A = parsed[ia]
        if ib not in parsed:
            bad.append((lines[ia], "mirror: the negated move is rejected/panics while the move is accepted")); continue
        B = parsed[ib]
        def negq(x, y):   # y is the exact negation of x as a number (-0 == +0)
            if x == "none" or y == "none":
                return x == y
            a, b = x.split(":"), y.split(":")
            if a[2] != b[2]:
                return False
            if a[1] == "nan" or b[1] == "nan":
                return a[1] == b[1]
            return h2f(a[1]) == -h2f(b[1])
        def negc(x, y):
            if x == "none" or y == "none":
                return x == y
            (ta, ca), (tb, cb) = x.split("@"), y.split("@")
            if ta != tb or ca[0] != cb[0]:
                return False
            if ca[1:] == "nan" or cb[1:] == "nan":
                return ca[1:] == cb[1:]
            return h2f(ca[1:]) == -h2f(cb[1:])
        ok = A[:3] == B[:3] and negq(A[3], B[3])
        if ok:
            for x, y in zip(A[5:], B[5:]):
                xa, ya = x.split("/"), y.split("/")
                if xa[0] != ya[0] or xa[1] != ya[1] or not all(negq(u, v) for u, v in zip(xa[2:5], ya[2:5])) or not negc(xa[5], ya[5]):
                    ok = False; break
        if not ok:
            bad.append((lines[ia], "negating all positions and velocities does not negate every output exactly"))
    return bad


# =========================================================================== devices (C08, C09, C13, C16, C20)
_STATE_POOL = []


def dev_state(rng):
    """state payload for terminals: mostly fresh, but sometimes EXACTLY equal to (or the exact negation of) a payload used a moment
    ago — "the two readings already agree, nothing to do" shortcuts (skipped average, skipped write) only go wrong there"""
    r = rng.random()
    if _STATE_POOL and r < 0.22:
        return rng.choice(_STATE_POOL[-6:])
    if _STATE_POOL and r < 0.30:
        return "/".join("%08x" % (int(h, 16) ^ 0x80000000) for h in rng.choice(_STATE_POOL[-6:]).split("/"))
    v = mkstate(rng)
    _STATE_POOL.append(v)
    if len(_STATE_POOL) > 64:
        del _STATE_POOL[:32]
    return v


def datum_state(rng, t=None):
    return "%d@%s" % (rng.randint(-10 ** 6, 10 ** 6) if t is None else t, dev_state(rng))


_CMD_POOL = []


def datum_cmd(rng, t):
    """command datum; sometimes the VALUE of a recent command is reused exactly with a (possibly) different kind — a
    "skip the write, nothing changed" test that looks at the number only goes wrong there"""
    if _CMD_POOL and rng.random() < 0.25:
        v = rng.choice(_CMD_POOL[-4:])
    elif rng.random() < 0.04:
        v = f2h(rng.choice([-1, 1]) * rng.choice([3e37, 1e38, 3.4e38]))       # huge but finite: x / ratio may overflow to inf, still relayed
    else:
        v = mkf(rng)
        _CMD_POOL.append(v)
        if len(_CMD_POOL) > 64:
            del _CMD_POOL[:32]
    return "%d@%s%s" % (t, rng.choice("PVA"), v)


def rand_ratio(rng):
    if rng.random() < 0.15:      # exactly 1:1 and -1:1 (a "fast path" for ratio*ratio == 1 must still project correctly)
        return rng.choice(["3f800000", "bf800000"])
    return f2h(rng.choice([-1, 1]) * math.exp(rng.uniform(math.log(1e-2), math.log(1e2))))


def device_setups(rng):
    """(setup token, number of terminals) for each device kind"""
    yield "inv", 2
    yield "gear:" + rand_ratio(rng), 2
    teeth = [float(rng.randint(5, 60)) for _ in range(rng.randint(2, 6))]
    if rng.random() < 0.3:
        teeth[-1] = teeth[0]         # equal first and last tooth count: ratio exactly +1 or -1
    yield "geart:" + "+".join(f2h(x) for x in teeth), 2
    yield "axle:%d" % rng.randint(0, 6), None
    for m in ("S1", "S2", "SU", "EQ"):
        yield "diff:" + m, 3
    yield "diffnew", 3


def gen_devices(rng, tier, with_cmds, with_states):
    L = []
    reps = n_of(tier, 25, 150)
    for _ in range(reps):
        for setup, nt in device_setups(rng):
            if nt is None:
                nt = int(setup.split(":")[1])
            # every subset of terminals having / lacking data; externals connected or not
            for mask in (range(2 ** nt) if nt <= 3 else [rng.randrange(2 ** nt) for _ in range(6)]):
                nfree = nt
                ops = []
                t = rng.randint(-10 ** 9, 10 ** 9)
                conn = [rng.random() < 0.5 for _ in range(nt)]
                for i in range(nt):
                    if conn[i]:
                        ops.append("c:%d:%d" % (i, nt + i))
                rounds = rng.randint(1, n_of(tier, 4, 8))
                times = rng.sample(range(1, 10 ** 6), 4 * nt * rounds + 4)
                if rng.random() < 0.3:      # timestamps 1..3 ns apart, far from zero (hours of uptime in ns)
                    t = rng.choice([-1, 1]) * rng.randint(10 ** 12, 10 ** 16)
                    base = rng.randint(1, 10 ** 6)
                    times = [base + k for k in rng.sample(range(0, 3 * (4 * nt * rounds + 4)), 4 * nt * rounds + 4)]
                for rd in range(rounds):
                    for i in range(nt):
                        has = (mask >> i) & 1 if rd == 0 else rng.random() < 0.5
                        if has and with_states:
                            tgt = nt + i if (conn[i] and rng.random() < 0.6) else i
                            ops.append("ss:%d:%s" % (tgt, datum_state(rng, t + times.pop())))
                        if with_cmds and rng.random() < (0.5 if rd == 0 else 0.3):
                            tgt = nt + i if (conn[i] and rng.random() < 0.6) else i
                            ops.append("sc:%d:%s" % (tgt, datum_cmd(rng, t + times.pop())))
                    ops.append("u:0")
                    ops.append("oa")
                    ops.append("ra")
                L.append("dv %s free:%d -- %s" % (setup, nfree, " ".join(ops)))
    # extreme and sentinel-like timestamps (i64::MIN / MAX, 0, -1) on one terminal only, on each terminal, and tied on all: a
    # "newest wins" written with a sentinel instead of an Option goes wrong exactly there
    EXT = [I64_MIN, I64_MIN + 1, -1, 0, 1, I64_MAX - 1, I64_MAX]
    for setup, nt in [("inv", 2), ("gear:" + rand_ratio(rng), 2), ("gear:" + f2h(-3.0), 2), ("axle:2", 2), ("axle:3", 3)] + \
                     ([("diff:" + m, 3) for m in ("S1", "S2", "SU", "EQ")] if with_states else []):
        for tx in EXT:
            for i in range(nt):
                ops = []
                if with_cmds:
                    ops.append("sc:%d:%s" % (i, datum_cmd(rng, tx)))
                if with_states:
                    ops.append("ss:%d:%s" % (i, datum_state(rng, tx)))
                L.append("dv %s free:%d -- %s u:0 oa ra" % (setup, nt, " ".join(ops)))
            ops = []
            for i in range(nt):
                if with_cmds:
                    ops.append("sc:%d:%s" % (i, datum_cmd(rng, tx)))
                if with_states:
                    ops.append("ss:%d:%s" % (i, datum_state(rng, tx)))
            L.append("dv %s free:%d -- %s u:0 oa ra" % (setup, nt, " ".join(ops)))
            for ty in EXT:
                if ty != tx and with_cmds:
                    L.append("dv %s free:%d -- sc:0:%s sc:%d:%s u:0 oa ra" % (setup, nt, datum_cmd(rng, tx), nt - 1, datum_cmd(rng, ty)))
    # constructor corner cases
    L.append("dv geart:41200000 --")
    for (m, s) in GRID:
        L.append("dv gearq:%s -- ss:0:1@%s u:0 oa" % (q(2.0, m, s), mkstate(rng)))
    return L


def out_datum(rng, kind, t, noerr=False):
    """what a getter followed by a terminal slot returns: Output<Datum<State>> / Output<Datum<Command>>; the outer timestamp is noise.
    (a line is compared only up to its first erroring update — see check.py `_cut_at_follower_error` — so half of the lines never err)"""
    r = rng.random()
    if noerr and r >= 0.78:
        r = rng.random() * 0.78
    if r < 0.60:
        return "S@%d@%s" % (rng.choice([rng.randint(-9, 9), t, t + 1, I64_MIN, I64_MAX]), datum_state(rng, t) if kind == "s" else datum_cmd(rng, t))
    if r < 0.78:
        return "N"
    return rng.choice(["E1", "E2", "E5", "EN"])


def gen_followers(rng, tier, with_cmds, with_states, n_quick=120, n_thorough=900):
    """terminals that FOLLOW scripted getters (`Settable::follow` on a Terminal; `Terminal::update` = command slot then state slot, `?`
    after each; every device update starts with `update_terminals()?` = owned terminals in order): present / absent / erroring getters on
    several slots at once, so that which slot was forwarded before the first error — and whether the device's own update ran — shows in
    the own slots (`oa`) and in the return value"""
    L = []
    kinds = ([("s", "fs", "nfs", "gs")] if with_states else []) + ([("c", "fc", "nfc", "gc")] if with_cmds else [])
    for _ in range(n_of(tier, n_quick, n_thorough)):
        setup, nt = rng.choice(list(device_setups(rng)))
        if nt is None:
            nt = int(setup.split(":")[1])
        if nt == 0:
            continue
        ops = []
        noerr = rng.random() < 0.5
        t = rng.randint(-10 ** 9, 10 ** 9)
        conn = [rng.random() < 0.4 for _ in range(nt)]
        for i in range(nt):
            if conn[i]:
                ops.append("c:%d:%d" % (i, nt + i))
        # start with most owned slots following something
        for i in range(nt):
            for (k, fol, unfol, gs) in kinds:
                if rng.random() < 0.7:
                    ops.append("%s:%d" % (fol, i))
                if rng.random() < 0.8:
                    ops.append("%s:%d:%s" % (gs, i, out_datum(rng, k, t + rng.randint(0, 1000), noerr)))
        for _ in range(rng.randint(3, n_of(tier, 14, 30))):
            t += rng.randint(0, 10 ** 6)
            i = rng.randrange(2 * nt) if rng.random() < 0.25 else rng.randrange(nt)
            (k, fol, unfol, gs) = rng.choice(kinds)
            r = rng.random()
            if r < 0.30: ops.append("%s:%d:%s" % (gs, i, out_datum(rng, k, t, noerr)))
            elif r < 0.40: ops.append("%s:%d" % (fol, i))
            elif r < 0.45: ops.append("%s:%d" % (unfol, i))
            elif r < 0.53: ops.append(("ss:%d:%s" % (i, datum_state(rng, t))) if k == "s" else ("sc:%d:%s" % (i, datum_cmd(rng, t))))
            elif r < 0.56: ops += [rng.choice(["x:%d" % i, "c:%d:%d" % (i % nt, nt + rng.randrange(nt))]), "oa"]   # (dis/re)connecting touches only the link
            elif r < 0.65: ops += ["tu:%d" % i, "oa"]
            elif r < 0.72: ops += ["ut:0", "oa"]
            else: ops += ["u:0", "oa"] + (["ra"] if rng.random() < 0.4 else [])
        ops += ["u:0", "oa", "ra"]
        L.append("dv %s free:%d -- %s" % (setup, nt, " ".join(ops)))
    return L


def gen_C08(rng, tier):
    return gen_devices(rng, tier, with_cmds=False, with_states=True) + gen_followers(rng, tier, with_cmds=False, with_states=True)


def gen_C13(rng, tier):
    L = gen_devices(rng, tier, with_cmds=True, with_states=rng.random() < 0.5)
    # chains of 1..5 devices joined by connected terminals; command issued at one end; updated in order
    for _ in range(n_of(tier, 150, 1000)):
        n = rng.randint(1, 5)
        setup = []
        nt = 0
        firsts, lasts = [], []
        for _ in range(n):
            kind = rng.choice(["inv", "gear", "axle"])
            if kind == "inv":
                setup.append("inv"); firsts.append(nt); lasts.append(nt + 1); nt += 2
            elif kind == "gear":
                setup.append("gear:" + rand_ratio(rng)); firsts.append(nt); lasts.append(nt + 1); nt += 2
            else:
                k = rng.randint(2, 4)
                setup.append("axle:%d" % k); firsts.append(nt); lasts.append(nt + k - 1); nt += k
        ops = []
        for d in range(n - 1):
            ops.append("c:%d:%d" % (lasts[d], firsts[d + 1]))
        t = rng.randint(0, 10 ** 9)
        for rd in range(rng.randint(1, 3)):
            t += rng.randint(1, 10 ** 6)
            src = rng.choice([firsts[0], lasts[-1]])
            ops.append("sc:%d:%s" % (src, datum_cmd(rng, t)))
            order = range(n) if src == firsts[0] else reversed(range(n))
            for d in order:
                ops.append("u:%d" % d)
            ops.append("ra")
        L.append("dv %s -- %s" % (" ".join(setup), " ".join(ops)))
    L += gen_followers(rng, tier, with_cmds=True, with_states=rng.random() < 0.5)
    return L


def matchings_bfs(n):
    """every reachable matching of n terminals with a shortest op path to it"""
    start = tuple([None] * n)
    seen = {start: []}
    todo = [start]
    while todo:
        m = todo.pop(0)
        for op in all_ops(n):
            m2 = apply_op(m, op)
            if m2 not in seen:
                seen[m2] = seen[m] + [op]
                todo.append(m2)
    return seen


def all_ops(n):
    return [("c", i, j) for i in range(n) for j in range(n) if i != j] + [("x", i) for i in range(n)]


def apply_op(m, op):
    m = list(m)
    def dis(i):
        p = m[i]
        if p is not None:
            m[p] = None; m[i] = None
    if op[0] == "x":
        dis(op[1])
    else:
        dis(op[1]); dis(op[2]); m[op[1]] = op[2]; m[op[2]] = op[1]
    return tuple(m)


def op_tok(op):
    return "c:%d:%d" % (op[1], op[2]) if op[0] == "c" else "x:%d" % op[1]


def gen_C09(rng, tier):
    L = []
    maxn = n_of(tier, 5, 6)
    for n in range(2, maxn + 1):
        reach = matchings_bfs(n)
        for m, path in reach.items():
            for op in all_ops(n):
                pre = []
                for i in range(n):
                    if rng.random() < 0.8:
                        pre.append("ss:%d:%s" % (i, datum_state(rng)))
                    if rng.random() < 0.6:
                        pre.append("sc:%d:%s" % (i, datum_cmd(rng, rng.choice([5, 6, 7, rng.randint(-100, 100)]))))
                L.append("dv free:%d -- %s" % (n, " ".join(pre + [op_tok(o) for o in path] + ["ra", op_tok(op), "ra"])))
    # random longer sequences, more terminals
    for _ in range(n_of(tier, 300, 3000)):
        n = rng.randint(2, n_of(tier, 6, 8))
        ops = []
        for _ in range(rng.randint(4, 30)):
            r = rng.random()
            if r < 0.45:
                i, j = rng.sample(range(n), 2)
                ops.append("c:%d:%d" % (i, j))
            elif r < 0.6:
                ops.append("x:%d" % rng.randrange(n))
            elif r < 0.75:
                ops.append("ss:%d:%s" % (rng.randrange(n), datum_state(rng)))
            elif r < 0.88:
                ops.append("sc:%d:%s" % (rng.randrange(n), datum_cmd(rng, rng.randint(-50, 50))))
            else:
                ops.append("ra")
        L.append("dv free:%d -- %s ra" % (n, " ".join(ops)))
    # read semantics: all own/partner presence combinations, timestamp orders incl. ties
    # timestamp pairs incl. adjacent nanoseconds far from zero (a "newer" decided in f32 seconds cannot tell them apart) and extremes
    for (t1, t2) in [(1, 2), (2, 2), (3, 2), (I64_MIN, I64_MAX), (-5, -5), (1_000_000_000, 1_000_000_001), (1_000_000_001, 1_000_000_000),
                     (3_600_000_000_050, 3_600_000_000_000), (-7_200_000_000_000, -7_199_999_999_999), (I64_MAX - 1, I64_MAX), (I64_MIN + 1, I64_MIN)]:
        for so in (0, 1):
            for sp in (0, 1):
                for co in (0, 1):
                    for cp in (0, 1):
                        ops = ["c:0:1"]
                        if so: ops.append("ss:0:%s" % datum_state(rng, t1))
                        if sp: ops.append("ss:1:%s" % datum_state(rng, t2))
                        if co: ops.append("sc:0:%s" % datum_cmd(rng, t1))
                        if cp: ops.append("sc:1:%s" % datum_cmd(rng, t2))
                        L.append("dv free:2 -- %s ra x:1 ra" % " ".join(ops))
    # regression for the repaired defect F2: connect twice
    L.append("dv free:2 -- c:0:1 c:0:1 ra c:1:0 ra")
    L.append("dv free:3 -- c:0:1 c:0:2 ra c:2:1 ra")
    return L


def oracle_C09(lines, impl):
    """no panic for distinct terminals; links symmetric as far as reads reveal (two connected terminals read the same state)"""
    bad = []
    for c, o in zip(lines, impl):
        if not c.startswith("dv free:") or " -- " not in c:
            continue
        ops = c.split(" -- ")[1].split(" ")
        if "PANIC" in o:
            if not any(x.startswith("c:") and x.split(":")[1] == x.split(":")[2] for x in ops):
                bad.append((c, "connect/disconnect panicked: " + o.split(" ")[-1]))
            continue
    return bad


def gen_C20(rng, tier):
    L = []
    for _ in range(n_of(tier, 400, 3000)):
        # actuator wrapper
        evs = []
        t = 0
        for _ in range(rng.randint(2, 32)):
            r = rng.random()
            t += rng.randint(1, 10 ** 6)
            if r < 0.2: evs.append("xs:" + datum_state(rng, t))
            elif r < 0.35: evs.append("xc:" + datum_cmd(rng, t))
            elif r < 0.42: evs.append("ws:" + datum_state(rng, t))
            elif r < 0.48: evs.append("wc:" + datum_cmd(rng, t))
            elif r < 0.54: evs.append("acc:" + rng.choice(["ok", "ok", "E4", "EN"]))
            elif r < 0.60: evs.append("iu:" + rng.choice(["ok", "ok", "E5", "EN"]))
            elif r < 0.62: evs.append("dis")
            else: evs.append("upd")
        L.append("wr act " + " ".join(evs))
        # encoder wrapper
        evs = []
        for _ in range(rng.randint(2, 32)):
            r = rng.random()
            t += rng.randint(1, 10 ** 6)
            if r < 0.35:
                # readings with increasing, repeated and EARLIER timestamps: the wrapper must write each present reading unchanged
                tg = rng.choice([t, t, t - rng.randint(0, 10 ** 6), 5])
                evs.append("gs:" + rng.choice([out_some(tg, mkstate(rng)), out_some(tg, mkstate(rng)), "N", "E1", "E2", "EN"]))
            elif r < 0.45: evs.append("iu:" + rng.choice(["ok", "ok", "E5", "EN"]))
            elif r < 0.52: evs.append("xs:" + datum_state(rng, t))
            elif r < 0.57: evs.append("xc:" + datum_cmd(rng, t))
            elif r < 0.60: evs.append("dis")       # an unconnected encoder wrapper still writes its reading into its own terminal
            else: evs.append("upd")
        L.append("wr enc " + " ".join((["dis"] if rng.random() < 0.15 else []) + evs))
        # PID wrapper
        evs = []
        t = rng.randint(0, 10 ** 9)
        for _ in range(rng.randint(2, 32)):
            r = rng.random()
            t += log_dt(rng, 1_000, 10 ** 10)
            if r < 0.3: evs.append("xs:" + datum_state(rng, t))
            elif r < 0.42: evs.append("xc:" + datum_cmd(rng, t))
            elif r < 0.47: evs.append("ws:" + datum_state(rng, t))
            elif r < 0.50: evs.append("wc:" + datum_cmd(rng, t))
            elif r < 0.54: evs.append("acc:" + rng.choice(["ok", "ok", "E4", "EN"]))
            elif r < 0.58: evs.append("iu:" + rng.choice(["ok", "ok", "E5", "EN"]))
            elif r < 0.62: evs.append("lr")
            elif r < 0.63: evs.append("dis")
            else: evs.append("upd")
        L.append("wr pid %d %s %s%s %s %s" % (rng.randint(-10 ** 6, 10 ** 6), mkstate(rng), rng.choice("PVA"), mkf(rng), K9(rng), " ".join(evs)))
    # the wrapper's terminal FOLLOWS scripted getters: `update_terminals()?` runs first (actuator) / right after the inner update (encoder);
    # a follower error ends the update before anything is handed over / written, a present value is handed over / overwritten
    for _ in range(n_of(tier, 150, 1200)):
        for kind in ("act", "enc"):
            evs = []
            noerr = rng.random() < 0.5
            t = rng.randint(0, 10 ** 6)
            for _ in range(rng.randint(3, 24)):
                r = rng.random()
                t += rng.randint(1, 10 ** 6)
                if r < 0.16: evs.append("tgs:" + out_datum(rng, "s", t, noerr))
                elif r < 0.32: evs.append("tgc:" + out_datum(rng, "c", t, noerr))
                elif r < 0.42: evs.append(rng.choice(["tfs", "tfc"]))
                elif r < 0.46: evs.append(rng.choice(["tnfs", "tnfc"]))
                elif r < 0.54: evs.append("xs:" + datum_state(rng, t))
                elif r < 0.60: evs.append("xc:" + datum_cmd(rng, t))
                elif r < 0.66: evs.append("iu:" + rng.choice(["ok", "ok", "ok"] if noerr else ["ok", "ok", "E5", "EN"]))
                elif r < 0.72 and kind == "act": evs.append("acc:" + rng.choice(["ok"] if noerr else ["ok", "ok", "E4"]))
                elif r < 0.72: evs.append("gs:" + rng.choice([out_some(t, mkstate(rng)), "N"] + ([] if noerr else ["E1"])))
                else: evs.append("upd")
            L.append("wr %s tfs tfc %s upd" % (kind, " ".join(evs)))
    return L


def wr_follows(case):
    """the wrapper's terminal follows a getter somewhere in this line (then what it hands over is not what it saw before the update)"""
    t = case.split(" ")
    return t[0] == "wr" and ("tfs" in t or "tfc" in t)


# =========================================================================== C15
def gen_C15(rng, tier):
    L = []
    def two_getters(evs, extra, obs):
        # both scripted getters hold DIFFERENT present values, one is followed and then the OTHER one is followed
        # WITHOUT stop_following in between, then an update: the most recently followed getter must be the one forwarded
        a = mkf(rng)
        b = mkf(rng)
        while b == a: b = mkf(rng)
        first, second = rng.choice([("fol", "fol2"), ("fol2", "fol")])
        mid = ["gs:" + out_some(rng.randint(-9, 9), a), "gs2:" + out_some(rng.randint(-9, 9), b)]
        rng.shuffle(mid)
        if rng.random() < 0.3: mid.append("upd")
        if rng.random() < 0.2: mid.append(rng.choice(extra))
        k = rng.randint(0, len(mid))
        evs.extend(mid[:k] + [first] + mid[k:] + [second, "upd"] + rng.choice(obs))
        evs.extend(rng.choice([[], [], [first, "upd"] + rng.choice(obs), ["unfol", second, "upd"] + rng.choice(obs)]))
    for _ in range(n_of(tier, 600, 5000)):
        evs = []
        if rng.random() < 0.5: two_getters(evs, ["lr", "acc:ok", "set:" + mkf(rng)], [[], ["lr"]])
        for _ in range(rng.randint(2, 40)):
            r = rng.random()
            if r < 0.21: evs.append("set:" + mkf(rng))
            elif r < 0.30: evs.append("acc:" + rng.choice(["ok", "ok", "E7", "E8", "EN"]))
            elif r < 0.41: evs.append("lr")
            elif r < 0.48: evs.append("fol")
            elif r < 0.55: evs.append("fol2")
            elif r < 0.59: evs.append("unfol")
            elif r < 0.70: evs.append("gs:" + rng.choice([out_some(rng.randint(-9, 9), mkf(rng)), out_some(1, mkf(rng)), "N", "E1", "E2", "EN"]))
            elif r < 0.80: evs.append("gs2:" + rng.choice([out_some(rng.randint(-9, 9), mkf(rng)), out_some(1, mkf(rng)), "N", "E4", "E2", "EN"]))
            elif r < 0.83: two_getters(evs, ["lr", "acc:ok", "set:" + mkf(rng)], [[], ["lr"]])
            else: evs.append("upd")
        L.append("se rec " + " ".join(evs))
        evs = []
        if rng.random() < 0.5: two_getters(evs, ["lr", "get", "set:" + mkf(rng)], [["get"], ["lr"]])
        for _ in range(rng.randint(2, 40)):
            r = rng.random()
            if r < 0.18: evs.append("clk:" + rng.choice(["T:%d" % rng.randint(-10 ** 12, 10 ** 12), "T:%d" % rng.randint(-9, 9), "E3"]))
            elif r < 0.40: evs.append("get")
            elif r < 0.49: evs.append("set:" + mkf(rng))
            elif r < 0.57: evs.append("lr")
            elif r < 0.63: evs.append("fol")
            elif r < 0.69: evs.append("fol2")
            elif r < 0.72: evs.append("unfol")
            elif r < 0.81: evs.append("gs:" + rng.choice([out_some(rng.randint(-9, 9), mkf(rng)), "N", "E1", "EN"]))
            elif r < 0.89: evs.append("gs2:" + rng.choice([out_some(rng.randint(-9, 9), mkf(rng)), "N", "E4", "EN"]))
            elif r < 0.91: two_getters(evs, ["lr", "get", "set:" + mkf(rng)], [["get"], ["lr"]])
            else: evs.append("upd")
        L.append("se cg %s %s %s" % (mkf(rng), rng.choice(["T:%d" % rng.randint(-99, 99), "E3"]), " ".join(evs)))
        lo = rng.choice([0, 0, -100, 50, rng.randint(-10 ** 6, 10 ** 6)])
        ctor = rng.choice(["nodelta", "zero", "start:%d" % rng.randint(-1000, 1000), "delta:%d" % rng.randint(-1000, 1000)])
        clk0 = rng.choice(["T:%d" % rng.randint(-10 ** 6, 10 ** 6), "T:%d" % rng.randint(-10 ** 6, 10 ** 6), "E3"])
        evs = []
        now = rng.randint(-10 ** 6, 10 ** 6)
        cur = int(clk0[2:]) if clk0.startswith("T:") else None      # what the clock shows right now (None: it errors)
        for _ in range(rng.randint(2, 40)):
            r = rng.random()
            if r < 0.3:
                now += rng.randint(0, 10 ** 5)
                c = rng.choice(["T:%d" % now, "T:%d" % now, "T:%d" % now, "E2", "EN"])
                cur = now if c.startswith("T:") else None
                evs.append("clk:" + c)
            elif r < 0.65: evs.append("get")
            elif r < 0.78: evs.append("sd:%d" % rng.choice([rng.randint(-10 ** 6, 10 ** 6), rng.randint(-10 ** 6, 10 ** 6), 0]))
            elif r < 0.92:
                # set_time to a random instant, to EXACTLY what the clock shows (offset must become 0 even if it was not), to 0, to the threshold
                cands = [rng.randint(-10 ** 6, 10 ** 6), rng.randint(-10 ** 6, 10 ** 6), 0, lo]
                if cur is not None:
                    cands += [cur, cur, cur + 1, cur - 1]
                evs.append("st:%d" % rng.choice(cands))
            else: evs.append("upd")
        L.append("se gfh %d %s %s %s" % (lo, ctor, clk0, " ".join(evs)))
    for ci in CATS_F:
        L.append("st tgfg f %s" % mk_out(rng, ci, rng.randint(-99, 99)))
        for ct in ["T:5", "E1"]:
            L.append("st const f %s %s" % (ct, mkf(rng)))
    L += gen_followers(rng, tier, with_cmds=True, with_states=True, n_quick=200, n_thorough=1500)     # a Terminal is a Settable too
    return L


# =========================================================================== C16 (scratch arrays, poisoned by cfg(rrtk_verif))
def gen_C16(rng, tier):
    L = []
    for name in ["sum", "prod"]:
        for n in range(1, 9):
            for mask in range(2 ** n):
                ins = [out_some(rng.randint(1, 9), rand_f(rng, -4, 4)) if (mask >> i) & 1 else "N" for i in range(n)]
                L.append("st %s f %d %s" % (name, n, " ".join(ins)))
                if n <= 4:
                    insq = [out_some(rng.randint(1, 9), q(rand_f(rng, -4, 4), 1, 0)) if (mask >> i) & 1 else "N" for i in range(n)]
                    L.append("st %s q %d %s" % (name, n, " ".join(insq)))
    for so in (0, 1):
        for sp in (0, 1):
            for connected in (0, 1):
                ops = ["c:0:1"] if connected else []
                if so: ops.append("ss:0:%s" % datum_state(rng, 5))
                if sp: ops.append("ss:1:%s" % datum_state(rng, 7))
                L.append("dv free:2 -- %s" % " ".join(ops + ["ra"]))
    # both ends of a connection hold the SAME datum (same time, same value — as after an Invert / Axle update): still two written slots
    for _ in range(6):
        d = datum_state(rng, rng.randint(-9, 9))
        L.append("dv free:2 -- c:0:1 ss:0:%s ss:1:%s ra oa" % (d, d))
        L.append("dv axle:2 free:2 -- c:0:2 c:1:3 ss:2:%s u:0 ra oa" % d)
    # the same reads while the caller holds a mutable borrow of the terminal itself, of its partner, or of an unrelated terminal:
    # a RefCell borrow error (panic) in the first two cases — never an answer assembled from slots that were not written
    for so in (0, 1):
        for sp in (0, 1):
            pre = (["ss:0:%s" % datum_state(rng, 5)] if so else []) + (["ss:1:%s" % datum_state(rng, 7)] if sp else [])
            for j in (0, 1, 2):
                L.append(" ".join(["dv free:3 -- c:0:1"] + pre + ["rb:0:%d" % j]))
            L.append(" ".join(["dv free:3 --"] + pre + ["rb:0:1 rb:0:2 rb:1:0"]))
    for n in range(0, 9):
        for k in sorted(set([0, max(0, n - 1), n, n + 1, n + 7])):
            L.append("dv axlegt %d %d" % (n, k))       # indexing a terminal: in range ok, out of range must panic
        L.append("dv axle:%d -- ra oa u:0 ra" % n)
        if n >= 1:
            L.append("dv axle:%d -- ss:%d:%s sc:%d:%s u:0 oa ra" % (n, n - 1, datum_state(rng, 3), 0, datum_cmd(rng, 4)))
    # a borrow obtained in safe code must stay exclusive / shared as the RefCell says: a conflicting borrow panics instead of handing out
    # a second, unchecked access (through which the first borrow's target could be replaced and freed)
    for held_kind, inner in (("hr", "wr:0:5"), ("hr", "wr:1:5"), ("hr", "inc:1"), ("hm", "rd:0"), ("hm", "rd:1"), ("hm", "wr:1:3"), ("hr", "hm:0"), ("hm", "hr:1"),
                             ("hr", "rd:1 hr:1 rd:0 hx")):
        L.append("rf rc cl:0 %s:0 %s hx rd:0 live" % (held_kind, inner))
        L.append("rf rc dy:0 %s:1 %s hx rd:0 live" % (held_kind, inner))
    # "no Reference outlives the object it points to", for References made by safe code (the counted variants): every way of making
    # 1..3 further handles by clone / to_dyn!, then the handles dropped in every order with the target's liveness asked after each drop
    # and a read through a surviving handle
    import itertools
    for v in ("rc", "arw", "amx"):
        makers = ("cl", "dy") if v == "rc" else ("cl",)
        for k in (1, 2, 3):
            for mk in itertools.product(makers, repeat=k):
                for srcs in itertools.product(*[range(i + 1) for i in range(k)]):
                    make = ["%s:%d" % (m, h) for m, h in zip(mk, srcs)]
                    orders = list(itertools.permutations(range(k + 1)))
                    for order in (orders if len(orders) <= 6 else rng.sample(orders, 6)):
                        evs = list(make) + ["wr:0:%d" % rng.randint(1, 99)]
                        for j, h in enumerate(order):
                            evs += ["dr:%d" % h, "live"]
                            if j + 1 < len(order):
                                evs.append("rd:%d" % order[-1])
                        L.append("rf %s %s" % (v, " ".join(evs)))
    return L


# =========================================================================== C17
RF_RAW = {"rc": "ptr", "arw": "prw", "amx": "pmx"}
RF_ARMS = ("ptr", "rc", "prw")


def rf_ext_line(rng, v):
    """a VALID `rf` line over the extended alphabet {cl, dy, dm (to_dyn! of the moved handle), al (raw alias), cf (clone_from), rd, wr,
    inc, dr, live}: the simulation below mirrors the harness's own pre-check (dead handles, target freed once the last OWNING handle is
    gone, clone_from only between handles of one static type); an op that panics (to_dyn! without an arm) ends the line"""
    counted = v in RF_RAW
    hs = [dict(own=counted, dyn=False, var=v)]
    freed = False
    evs = []
    held = []            # (handle, exclusive?) of the borrows kept alive (rc only); readers / writer = the RefCell's dynamic state
    def panics_on(kind):   # would this access be refused by the RefCell right now?
        w = any(x for _, x in held)
        return w if kind == "r" else (w or len(held) > 0)
    def drop_one(x):
        nonlocal freed
        if counted and x["own"] and not any(h and h["own"] for h in hs):
            freed = True
    for _ in range(rng.randint(2, 14)):
        live = [i for i, h in enumerate(hs) if h]
        if not live:
            break
        h = rng.choice(live)
        r = rng.random()
        if v == "rc" and rng.random() < 0.22:
            # keep a borrow alive / release the innermost one
            if held and rng.random() < 0.45:
                held.pop(); evs.append("hx"); continue
            if hs[h]["own"] and not freed:
                excl = rng.random() < 0.5
                evs.append("%s:%d" % ("hm" if excl else "hr", h))
                if panics_on("w" if excl else "r"):
                    return "rf %s %s" % (v, " ".join(evs))      # the RefCell refuses: PANIC ends the line
                held.append((h, excl)); continue
        is_held = any(x == h for x, _ in held)
        if held and not hs[h]["own"] and 0.52 <= r < 0.78:
            continue            # no access through a raw alias while a borrow is held
        if is_held and (r >= 0.78 and r < 0.92):
            continue            # a handle with a borrow held through it is not dropped
        if r < 0.13:
            evs.append("cl:%d" % h); hs.append(dict(hs[h]))
        elif r < 0.23:
            op = "dy" if rng.random() < 0.5 else "dm"
            evs.append("%s:%d" % (op, h))
            if hs[h]["var"] not in RF_ARMS:
                return "rf %s %s" % (v, " ".join(evs))          # PANIC:unimpl ends the line
            n = dict(hs[h]); n["dyn"] = True
            if op == "dm":
                if is_held:
                    evs.pop(); continue
                hs[h] = None
            hs.append(n)
        elif r < 0.36:
            if freed: continue
            n = dict(hs[h]); n["own"] = False; n["var"] = RF_RAW.get(n["var"], n["var"])
            evs.append("al:%d" % h); hs.append(n)
        elif r < 0.52:
            cands = [j for j in live if j != h and hs[j]["dyn"] == hs[h]["dyn"]]
            if not cands or is_held: continue
            j = rng.choice(cands)
            old = hs[h]
            hs[h] = dict(hs[j])
            drop_one(old)
            evs.append("cf:%d:%d" % (h, j))
        elif r < 0.64:
            if freed: continue
            evs.append("rd:%d" % h)
            if panics_on("r"): return "rf %s %s" % (v, " ".join(evs))
        elif r < 0.72:
            if freed: continue
            evs.append("wr:%d:%d" % (h, rng.randint(-1000, 1000)))
            if panics_on("w"): return "rf %s %s" % (v, " ".join(evs))
        elif r < 0.78:
            if freed: continue
            evs.append("inc:%d" % h)
            if panics_on("w"): return "rf %s %s" % (v, " ".join(evs))
        elif r < 0.92:
            x = hs[h]; hs[h] = None
            drop_one(x)
            evs.append("dr:%d" % h)
        else:
            evs.append("live")
        if rng.random() < 0.25:
            evs.append("live")
    evs.append("live")
    return "rf %s %s" % (v, " ".join(evs))


def gen_C17(rng, tier):
    L = []
    for v in ["ptr", "rc", "prw", "pmx", "arw", "amx"]:
        can_dyn = v in ("ptr", "rc", "prw")
        for _ in range(n_of(tier, 150, 1500)):
            handles = [True]
            evs = []
            for _ in range(rng.randint(1, 12)):
                live = [i for i, a in enumerate(handles) if a]
                if not live:
                    evs.append("live"); break
                r = rng.random()
                h = rng.choice(live)
                if r < 0.2:
                    evs.append("cl:%d" % h); handles.append(True)
                elif r < 0.35 and can_dyn:
                    evs.append("dy:%d" % h); handles.append(True)
                elif r < 0.55:
                    evs.append("rd:%d" % h)
                elif r < 0.7:
                    evs.append("wr:%d:%d" % (h, rng.randint(-1000, 1000)))
                elif r < 0.8:
                    evs.append("inc:%d" % h)
                elif r < 0.92:
                    evs.append("dr:%d" % h); handles[h] = False
                else:
                    evs.append("live")
            evs.append("live")
            L.append("rf %s %s" % (v, " ".join(evs)))
        L.append("rf %s dy:0 rd:1" % v)
        L.append("rf %s dm:0 rd:1 live" % v)
        for _ in range(n_of(tier, 150, 1500)):
            L.append(rf_ext_line(rng, v))
    # a RefCell-backed Reference: a borrow kept alive makes a conflicting borrow panic (never hands out a second, unchecked access), and
    # does NOT stand in the way of clone / to_dyn! / drop of other handles
    for held_kind, inner in (("hr", "rd:0 rd:1"), ("hr", "wr:1:5"), ("hm", "rd:1"), ("hm", "wr:0:3"), ("hr", "hm:1"), ("hm", "hr:1"), ("hr", "hr:1 rd:0 hx wr:0:2")):
        L.append("rf rc cl:0 %s:0 %s hx rd:0 live" % (held_kind, inner))
    for held_kind in ("hr", "hm"):
        L.append("rf rc cl:0 %s:0 dy:1 cl:1 dm:1 al:2 dr:2 hx rd:3 live" % held_kind)
        L.append("rf rc %s:0 dy:0 hx inc:1 rd:0 live" % held_kind)
    # clone_from onto a raw alias must make it an owner: every counted variant, with and without further clones, source dropped afterwards
    for v in ["rc", "arw", "amx"]:
        L.append("rf %s al:0 cf:1:0 dr:0 live rd:1 wr:1:5 rd:1 dr:1 live" % v)
        L.append("rf %s cl:0 al:1 cf:2:1 dr:0 dr:1 live inc:2 rd:2 dr:2 live" % v)
        L.append("rf %s al:0 cl:0 cf:2:1 live rd:2 dr:0 live" % v)          # clone_from FROM a raw alias: the slot gives its share up
    for v in ["arw", "amx"]:
        L.append("rf excl %s" % v)         # the Reference is the Arc's only strong owner: its borrow_mut must still take the lock
    for v in ["arw", "amx", "prw", "pmx"]:
        for n in ([2, 4, 8] if tier == "quick" else [2, 3, 4, 5, 6, 7, 8]):
            L.append("rf thr %s %d %d" % (v, n, n_of(tier, 1000, 100000)))
    return L


GENERATORS.update({"C06": gen_C06, "C07": gen_C07, "C08": gen_C08, "C09": gen_C09, "C13": gen_C13, "C15": gen_C15,
                   "C16": gen_C16, "C17": gen_C17, "C20": gen_C20})


# =========================================================================== C19: one workload, many configurations
def subsample(rng, L, n):
    return L if len(L) <= n else rng.sample(L, n)


def gen_C19(rng, tier):
    """a seeded workload over the whole public API: well-dimensioned programs of every group, plus the ill-dimensioned quantity
    programs of C01 (which must not panic / be rejected in the unchecked builds)"""
    global HARNESS_BIN
    n = n_of(tier, 600, 4000)
    # the very FIRST power-function call of the process is 0^0 (= 1): state that a build keeps between calls (a cache, a lazily initialised
    # table) starts out in its sentinel state exactly once per process, and a sentinel of all zeros collides with these arguments
    L = ["st exp S@1@00000000 S@2@00000000"]
    L += subsample(rng, gen_C01(rng, "quick"), 4 * n)
    L += subsample(rng, gen_C18(rng, "quick"), 2 * n)
    L += i8_edge_cases(rng, 150)
    L += const_use_cases(rng)
    L += time_div_cases(rng)
    L += setter_cases(rng, 40)
    # quantities whose unit is exactly SECOND (or dimensionless) mixed with Time / DimensionlessInteger: a route that exists only for
    # that unit — and therefore only in builds that can see units — must give the same bits as the generic one
    for _ in range(60):
        t = rng.choice([rng.randint(1, 10 ** 10), 10 ** 9 + rng.randint(1, 99), strat_i64(rng)])
        op = rng.choice(["add", "sub", "mul", "div", "addas", "subas", "mulas", "divas"])
        L.append("q %s %s T:%d" % (op, q(rand_f(rng), 0, 1), t))
        L.append("q %s %s D:%d" % (op, q(rand_f(rng), 0, 0) if op[:3] in ("add", "sub") else q(rand_f(rng), 0, 1), rng.choice([2, 3, 7, 0, rng.randint(-10 ** 6, 10 ** 6)])))
        if not op.endswith("as"):
            L.append("q %s T:%d %s" % (op, t, q(rand_f(rng), 0, 1)))
    L += subsample(rng, gen_C14(rng, "quick"), 2 * n)
    L += subsample(rng, gen_C03(rng, "quick"), n)
    L += subsample(rng, gen_C02(rng, "quick"), n)
    for g in (gen_C04, gen_C05, gen_C10, gen_C11, gen_C12, gen_C15, gen_C08, gen_C09, gen_C13, gen_C20, gen_C16):
        L += subsample(rng, g(rng, "quick"), n // 2)
    L += subsample(rng, gen_C06(rng, "quick"), n // 3)
    # the cfg-duplicated code paths, hit on purpose: hand-written PartialEq / manual abs on special values and on values closer
    # than f32 epsilon; powf at its exact corner cases (0^0, 0^-1, 1^y, x^0) through the exponent stream and the EWMA
    # (smoothing exactly 1 or 0 with repeated timestamps)
    for a in SPECIAL_F + [f2h(5e-8), f2h(1.0 + 2 ** -23), f2h(0.3), f2h(-0.3)]:
        for b in SPECIAL_F + [f2h(5e-8), f2h(1.0), f2h(0.3)]:
            for op in ["eq", "cmp", "add", "sub", "mul", "div"]:
                L.append("q %s Q:%s:1,0 Q:%s:1,0" % (op, a, b))
        L.append("q abs Q:%s:1,0" % a)
        L.append("q neg Q:%s:1,0" % a)
    for base in ["00000000", "80000000", "3f800000", f2h(0.5), f2h(2.0), f2h(-2.0)]:
        for ex in ["00000000", "bf800000", "3f800000", f2h(0.5), f2h(-0.5), f2h(2.0), f2h(3.0)]:
            L.append("st exp S@1@%s S@2@%s" % (base, ex))
    for sm in ["3f800000", "00000000", f2h(0.5)]:
        for ty, v1, v2 in (("f", f2h(5.0), f2h(9.0)), ("q", q(5.0, 1, 0), q(9.0, 1, 0))):
            L.append("ss ewma %s %s S@10@%s S@10@%s S@1000000010@%s S@1000000010@%s" % (ty, sm, v1, v2, v1, v2))
    # motion profiles whose limits are -0.0 / +0.0 / NaN (the constructor takes `abs` of both limits: regression for the no_std abs)
    for lim in ("80000000", "00000000", "7fc00000", "ffc00000"):
        L.append("mp %s %s Q:%s:1,-1 %s 0 1000000000" % (state(0.0, 0.0, 0.0), state(3.0, 0.0, 0.0), lim, q(0.01, 1, -2)))
        L.append("mp %s %s %s Q:%s:1,-2 0 1000000000" % (state(0.0, 0.0, 0.0), state(3.0, 0.0, 0.0), q(0.1, 1, -1), lim))
    rel = RELATIONS  # (relations of the individual generators are not used here)
    return L


POWF_LINE = ("ss ewma", "st exp")


def line_mask_C19(c):
    return {"cat", "time", "unit", "float"}


CONFIG_CHECKED = {}   # configuration name -> dimension checking compiled in (filled by check.py)


def config_tol_C19(cname, c):
    """the property exempts 'the last ulps of the power function used by the EWMA and exponent streams when libm or micromath
    replaces std': powf-dependent lines are compared with a bound instead of bit-for-bit in those configurations (libm: a few ulps;
    micromath is a coarse approximation by design: 30 %). Gross differences (0 instead of 1, inf instead of 0, …) still count."""
    if not c.startswith(POWF_LINE):
        return None
    if "libm" in cname:
        return (1e-4, 1e-4)        # observed: <= 3e-6 absolute on values of magnitude <= 50 (lambda = 1 - powf(..) amplifies ulps)
    if "micromath" in cname:
        return "skip"     # micromath's powf is a coarse approximation (O(1) relative differences observed in the EWMA) and, in a
                          # debug build, panics with an integer overflow inside micromath for a base of -0.0: third-party code the
                          # property exempts; powf-dependent lines are not compared at all in the micromath configurations
    return None


def strip_units(tok):
    """drop unit exponents (`mm,s`) from a token so that checked and unchecked traces can be compared as numbers"""
    import re as _re
    return _re.sub(r"(:|^)-?\d+,-?\d+", r"\1u", tok)


def _units_of(tok):
    import re as _re
    return _re.findall(r"-?\d+,-?\d+", tok)


def cross_C19(lines, outs, models=None):
    """C19 is about CONFIGURATIONS: (1) an unchecked build never panics with a dimension panic; (2) a well-dimensioned line
    (accepted by the checked builds) gives equal f32 VALUES and identical timestamps in every configuration (powf lines: bound
    under libm, exempt under micromath); (3) an ill-dimensioned line (the checked build panics / rejects) gives, in an unchecked
    build, the plain f32 arithmetic on the values, i.e. what the model computes with checking off."""
    import re as _re
    bad = []
    names = list(outs.keys())
    # which configurations have dimension checking compiled in: told by check.py (the `chk` / `nochk` argument the model is run with)
    chk_cfgs = [n for n in names if CONFIG_CHECKED.get(n, ("chk" in _re.split("[_,:]", n) or n == "default"))]
    # unit-introspection API: documented to answer differently with checking off (`eq_assume_true` is constantly true,
    # `assert_eq_assume_not_ok` always panics): not numeric results of a program
    INTROSPECT = ("q uanok", "q ueqt", "q ueqf", "q uceq", "q ucaeq", "q uaok")
    # families (group + op) whose behaviour differs from the model in the SAME way in every configuration on lines that the checked
    # build accepts: a change that is uniform across configurations belongs to the property owning that behaviour, not to C19; on
    # such a family the model cannot serve as the reference for "plain arithmetic on the values" of ill-dimensioned lines
    drifting = set()
    if models:
        for k, c in enumerate(lines):
            fam = " ".join(c.split(" ")[:2])
            if fam in drifting:
                continue
            for n in names:
                if k < len(outs[n]) and k < len(models.get(n, [])) and "PANIC" not in outs[n][k] and outs[n][k] not in ("NOIMPL", "BADLINE"):
                    if compare_lines(strip_units(outs[n][k]), strip_units(models[n][k]), {"cat", "time", "float"}, None, True)[0] == "hard" \
                       and "PANIC:dim" not in models[n][k] and not (c.startswith(POWF_LINE) and config_tol_C19(n, c) is not None):
                        ref0 = outs[names[0]][k] if k < len(outs[names[0]]) else ""
                        if all(k < len(outs[m]) and compare_lines(strip_units(outs[m][k]), strip_units(ref0), {"cat", "time", "float"}, None, True)[0] != "hard"
                               for m in names):
                            drifting.add(fam)
                            break
    for k, c in enumerate(lines):
        row = {n: outs[n][k] for n in names if k < len(outs[n])}
        if any(o in ("NOIMPL", "BADLINE") for o in row.values()):
            continue
        if c.startswith(INTROSPECT):
            continue
        if c.startswith(("q eq ", "q ne ")):
            us = _units_of(c)
            if len(us) == 2 and us[0] != us[1]:
                continue        # `==` on different units: ill-dimensioned, and documented to ignore units when unchecked
        ref_name = chk_cfgs[0] if chk_cfgs else names[0]
        ref = row[ref_name]
        # ill-dimensioned: the MODEL of the checked build says "dimension panic" (robust against a reworded assertion message
        # in the crate, which would change the harness's panic kind), or the checked build rejects
        mref = (models or {}).get(ref_name, [])
        mref = mref[k] if k < len(mref) else ""
        # (whether a program is dimensionally correct is decided by the MODEL, not by whether the checked build happens to panic:
        # a checked build that panics on a well-dimensioned program while the unchecked build computes a value is exactly a C19 violation)
        if mref:
            ill = ("PANIC:dim" in mref) or ((" err" in (" " + mref) or mref.startswith("err")) and (" err" in (" " + ref) or ref.startswith("err")))
        else:
            ill = "PANIC:dim" in ref or " err" in (" " + ref) or ref.startswith("err")
        for n in names:
            if c.startswith(POWF_LINE) and config_tol_C19(n, c) == "skip":
                continue
            mn = (models or {}).get(n, [])
            mn = mn[k] if k < len(mn) else ""
            if n not in chk_cfgs and ("PANIC:dim" in row[n] or (ill and "PANIC" in row[n] and "PANIC" not in mn)):
                bad.append((c, "dimension panic in the unchecked configuration %s" % n))
        if ill:
            # every configuration that has checking compiled in must refuse the same ill-dimensioned program
            for n in chk_cfgs:
                if n != ref_name and compare_lines(strip_units(row[n]), strip_units(ref), {"cat", "time", "float"}, None, True)[0] == "hard":
                    bad.append((c, "checked configuration %s accepts / answers differently from checked configuration %s: %s vs %s"
                                % (n, ref_name, row[n][:80], ref[:80])))
            unchk = [n for n in names if n not in chk_cfgs]
            # the unchecked builds must agree with each other on an ill-dimensioned program (values, timestamps) ...
            for n in unchk[1:]:
                if c.startswith(POWF_LINE) and (config_tol_C19(n, c) is not None or config_tol_C19(unchk[0], c) is not None):
                    continue
                if compare_lines(strip_units(row[n]), strip_units(row[unchk[0]]), {"cat", "time", "float"}, None, True)[0] == "hard":
                    bad.append((c, "unchecked configurations %s and %s answer an ill-dimensioned program differently: %s vs %s"
                                % (n, unchk[0], row[n][:80], row[unchk[0]][:80])))
            # ... and compute the plain arithmetic on the values = the model with checking off (unless this family's behaviour
            # differs from the model uniformly in every configuration, see `drifting`)
            if models and " ".join(c.split(" ")[:2]) not in drifting:
                for n in names:
                    if n in chk_cfgs or k >= len(models.get(n, [])):
                        continue
                    v, detail = compare_lines(strip_units(row[n]), strip_units(models[n][k]), {"cat", "time", "float"}, None, True)
                    if v == "hard" and _mixed_time_conformant(c, row[n], models[n][k]):
                        continue        # an admissible Time -> seconds conversion other than the model's (C18 owns that number)
                    if v == "hard":
                        bad.append((c, "unchecked configuration %s does not compute the plain arithmetic on the values: %s" % (n, detail)))
            continue
        for n in names:
            if n == ref_name:
                continue
            v, detail = compare_lines(strip_units(row[n]), strip_units(ref), {"cat", "time", "float"}, None, True)
            if v == "hard" and c.startswith(POWF_LINE):
                ct = config_tol_C19(n, c) or config_tol_C19(ref_name, c)
                if ct == "skip":
                    v = "same"
                elif ct is not None and compare_lines(strip_units(row[n]), strip_units(ref), {"cat", "time", "float"}, ct, True)[0] in ("same", "soft"):
                    v = "same"
            if v == "hard":
                bad.append((c, "configuration %s differs from %s: %s" % (n, ref_name, detail)))
    return bad[:200]


GENERATORS.update({"C19": gen_C19})


# =========================================================================== observables pinned only up to a tolerance
from fractions import Fraction as _Fr


def _exact_f32(h):
    """exact rational value of a finite binary32 bit pattern"""
    b = int(h, 16)
    sign = -1 if b >> 31 else 1
    ex, man = (b >> 23) & 0xff, b & 0x7fffff
    if ex == 255:
        return None
    if ex == 0:
        return sign * _Fr(man, 2 ** 149)
    return sign * _Fr((1 << 23) + man) * (_Fr(2) ** (ex - 150))


def _rne32_bits(x):
    """bit pattern of the binary32 nearest to the rational x (ties to even, overflow -> inf); exact, no double rounding"""
    if x == 0:
        return 0
    sign = 0x80000000 if x < 0 else 0
    a = -x if x < 0 else x
    # exponent e with 2^e <= a < 2^(e+1)
    e = a.numerator.bit_length() - a.denominator.bit_length()
    if _Fr(2) ** e > a:
        e -= 1
    elif _Fr(2) ** (e + 1) <= a:
        e += 1
    e = max(e, -126)
    q = a / (_Fr(2) ** (e - 23))          # in [2^23, 2^24) for normals, below 2^23 for subnormals
    n = q.numerator // q.denominator
    r = q - n
    if r > _Fr(1, 2) or (r == _Fr(1, 2) and n % 2 == 1):
        n += 1
    if n >= 1 << 24:
        n >>= 1; e += 1
    if e > 127:
        return sign | 0x7f800000
    if n < 1 << 23:                         # subnormal (or zero)
        return sign | n
    return sign | ((e + 127) << 23) | (n - (1 << 23))


def _time_to_seconds_candidates(ns):
    """every binary32 value within two units in the last place of ns/1e9 (what C18 allows `Quantity::from(Time)` to return)"""
    exact = _Fr(ns, 10 ** 9)
    b0 = _rne32_bits(exact)
    out = []
    for d in range(-3, 4):
        mag = (b0 & 0x7fffffff) + (d if exact >= 0 else d)
        if mag < 0 or mag >= 0x7f800000:
            continue
        b = (b0 & 0x80000000) | mag
        v = _exact_f32("%08x" % b)
        ulp = abs(_exact_f32("%08x" % ((b & 0x80000000) | (mag + 1))) - v) if mag + 1 < 0x7f800000 else None
        if ulp is not None and abs(v - exact) <= 2 * ulp:
            out.append(v)
    return out


def _mixed_time_conformant(case, impl, model):
    """`q <op> A B` / `q toq T:n` where an operand is a Time and the result a Quantity: C18 pins the result to "the Quantity operator applied
    after converting", and the conversion only to within two ulps.  True iff the implementation's value is the correctly rounded binary32
    operator applied to SOME admissible conversion (and its unit equals the model's)."""
    t = case.split(" ")
    if t[0] != "q" or not (impl.startswith("Q:") and model.startswith("Q:")) or " " in impl:
        return False
    iv, iu = impl.split(":")[1], impl.split(":")[2]
    mv, mu = model.split(":")[1], model.split(":")[2]
    if iu != mu:
        return False
    def vals(tok):
        if tok.startswith("T:"):
            return _time_to_seconds_candidates(int(tok[2:]))
        if tok.startswith("D:"):
            return [_exact_f32("%08x" % _rne32_bits(_Fr(int(tok[2:]))))]
        if tok.startswith("Q:"):
            v = _exact_f32(tok.split(":")[1])
            return None if v is None else [v]
        return None
    ops = {"add": lambda a, b: a + b, "sub": lambda a, b: a - b, "mul": lambda a, b: a * b,
           "div": lambda a, b: None if b == 0 else a / b}
    want = int(iv, 16)
    if t[1] == "toq" and len(t) == 3 and t[2].startswith("T:"):
        return any(_rne32_bits(c) == want for c in vals(t[2]))
    op = t[1][:-2] if t[1].endswith("as") else t[1]
    if op not in ops or len(t) != 4 or not any(x.startswith("T:") for x in t[2:]):
        return False
    A, B = vals(t[2]), vals(t[3])
    if not A or not B:
        return False
    for a in A:
        for b in B:
            r = ops[op](a, b)
            if r is not None and (_rne32_bits(r) & 0xffffffff) == want:
                return True
            if r is not None and r == 0 and (want & 0x7fffffff) == 0:
                return True            # sign of an exact zero
    return False


def precompare_conversions(case, impl, model):
    """C18 (and the copies of these lines in C01/C19): `q tot` — Quantity -> Time — is pinned only "to within one f32 rounding and 1 ns of
    truncation"; `q tod` — Quantity -> DimensionlessInteger — is pinned only in WHETHER it succeeds.  An implementation that differs from
    the model on such a line is judged by the property's own predicate: inside it -> `soft` (the correspondence is broken, no failing input);
    outside -> `hard`.  Returns None for every other line (normal comparison)."""
    t = case.split(" ")
    if t[0] == "q" and impl != model and _mixed_time_conformant(case, impl, model):
        return ("soft", "differs from the model but equals the Quantity operator applied to a conversion of the Time within two ulps of ns/1e9")
    if len(t) != 3 or t[0] != "q" or impl == model:
        return None
    if t[1] == "tod":
        if impl.startswith("D:") and model.startswith("D:"):
            return ("drift", "value of DimensionlessInteger::try_from is not pinned by any property")
        return None
    if t[1] == "tot" and impl.startswith("T:") and model.startswith("T:") and t[2].startswith("Q:"):
        x = _exact_f32(t[2].split(":")[1])
        if x is None:
            return None
        y = x * 10 ** 9
        n = int(impl[2:])
        if abs(y) < 2 ** 63 - 2 ** 40 and abs(n - y) <= abs(y) / 2 ** 24 + 1:
            return ("soft", "differs from the model but is within one f32 rounding + 1 ns of value*1e9")
        return None
    return None


def oracle_C18(lines, impl):
    """C18's clauses that do not need the model: Time -> Quantity is MONOTONE in the time and within two ulps of ns/1e9"""
    bad = []
    pts = []
    for c, o in zip(lines, impl):
        t = c.split(" ")
        if t[:2] == ["q", "toq"] and len(t) == 3 and t[2].startswith("T:") and o.startswith("Q:") and " " not in o:
            ns = int(t[2][2:])
            v = _exact_f32(o.split(":")[1])
            if v is None:
                bad.append((c, "Time -> Quantity gave a non-finite value: " + o)); continue
            if v not in _time_to_seconds_candidates(ns):
                bad.append((c, "Time -> Quantity is not within two ulps of ns/1e9: " + o)); continue
            pts.append((ns, v, c))
    pts.sort(key=lambda p: p[0])
    for (n1, v1, c1), (n2, v2, c2) in zip(pts, pts[1:]):
        if v2 < v1:
            bad.append((c2, "Time -> Quantity is not monotone: %d ns -> %s but %d ns -> %s" % (n1, float(v1), n2, float(v2)))); break
    return bad


def precompare_C14(case, impl, model):
    """`k supd <State> <dt>` — State::update takes its time step through Quantity::from(Time), which C18 pins only to within two ulps:
    a result whose fields are within a few ulps of the model's is inside what C14 + C18 state (soft: correspondence broken, no failing input)"""
    t = case.split(" ")
    if t[:2] != ["k", "supd"] or impl == model or "PANIC" in impl or "PANIC" in model:
        return None
    if len(t) == 4 and t[3] == "0" and impl == t[2]:
        # "zero (identity) dt": returning the state unchanged bit for bit IS the identity (today's arithmetic turns a -0.0 into +0.0,
        # which is the same value; both are what the property states)
        return ("drift", "the state is returned unchanged at dt = 0")
    a, b = impl.split("/"), model.split("/")
    if len(a) != 3 or len(b) != 3:
        return None
    mx = 0.0
    vals = []
    for x, y in zip(a, b):
        try:
            fx, fy = h2f(x), h2f(y)
        except Exception:
            return None
        if fx != fx or fy != fy or abs(fx) == float("inf") or abs(fy) == float("inf"):
            return None if x != y else None
        vals.append((fx, fy)); mx = max(mx, abs(fx), abs(fy))
    if all(abs(fx - fy) <= mx * 2 ** -20 for fx, fy in vals):
        return ("soft", "State::update differs from the model by a few ulps (the time step's conversion to seconds is pinned only to two ulps)")
    return None


def precompare_conversions_C01(case, impl, model):
    """C01 owns units and WHETHER a conversion succeeds; the converted value is C18's"""
    r = precompare_conversions(case, impl, model)
    if r is not None and r[0] == "soft":
        return ("drift", "converted value owned by C18")
    return r


# =========================================================================== property-conformant alternatives
def accept_latest(case, impl, model):
    """`st latest` / `d latest`: the property only says the result is one of the candidates and no candidate is strictly newer;
    which of several equally new candidates is returned is not specified. Accept any such candidate (both reads equal)."""
    t = case.split(" ")
    if t[:2] == ["st", "latest"]:
        ins = t[4:]
        cands = [x for x in ins if x.startswith("S@")]
        outs = impl.split(" ")
        if len(outs) != 2 or outs[0] != outs[1]:
            return False
        if not cands:
            return outs[0] == "N"
        tmax = max(int(x.split("@")[1]) for x in cands)
        return outs[0] in [x for x in cands if int(x.split("@")[1]) == tmax]
    if t[:2] == ["d", "latest"]:
        a, b = t[3], t[4]
        ta, tb = int(a.split("@")[0]), int(b.split("@")[0])
        ok = [x for x in (a, b) if int(x.split("@")[0]) == max(ta, tb)]
        return impl in ok
    return False


# =========================================================================== observable scoping (projections)
def _dv_project(case, line, part):
    """`dv` output tokens `r:`=<state>;<cmd>;<td> and `o:`=<own state>;<own cmd>: keep only component `part`
    (0 = state, 1 = command); other tokens (ok, -, PANIC) are kept."""
    if not case.startswith("dv "):
        return line
    out = []
    for tok in line.split(" "):
        ps = tok.split(";")
        if len(ps) in (2, 3):
            out.append(ps[part])
        else:
            out.append(tok)
    return " ".join(out)


def project_states(case, line):      # C08, C16: the states only
    return _dv_project(case, line, 0)


def project_commands(case, line):    # C13: the commands only
    return _dv_project(case, line, 1)


def project_C06(case, line):
    """motion profile, accessor AGREEMENT: keep the structure (piece, mode, which accessors are present, the history's time and
    kind) and the end command; the numeric values and the phase durations t1,t2,t3 are owned by C07"""
    if not case.startswith("mp ") or line.startswith("PANIC") or line in ("NOIMPL", "BADLINE"):
        return "REJECTED" if line.startswith("PANIC") else line
    toks = line.split(" ")
    # a PANIC token AFTER the constructor's five tokens is an accessor that panicked on an accepted profile: kept, so that it
    # is compared (the accessors of the unchanged crate never panic, and the model proves it: history_no_panic)
    out = ["ACCEPTED", toks[4][:1] if len(toks) > 4 else "?"]     # accepted + kind of the end command
    for tk in toks[5:]:
        p = tk.split("/")
        if len(p) != 6:
            out.append(tk); continue
        pres = lambda x: "none" if x == "none" else "some"
        hist = p[5]
        if hist != "none":
            t, c = hist.split("@")
            hist = t + "@" + c[:1]
        out.append("/".join([p[0], p[1], pres(p[2]), pres(p[3]), pres(p[4]), hist]))
    return " ".join(out)


def mp_limit_outside_range(case):
    """a motion-profile case whose velocity or acceleration limit is ±0, NaN or infinite: outside what C06/C07 quantify over (limits in
    1e-2..1e3). The constructor then divides by zero and converts NaN / infinite durations; what comes out is not pinned by either
    property (such lines exist for C19: every configuration must treat them alike)"""
    t = case.split(" ")
    if t[0] != "mp" or len(t) < 5:
        return False
    for tok in t[3:5]:
        if tok.startswith("Q:"):
            b = int(tok.split(":")[1], 16)
            if (b & 0x7fffffff) == 0 or (b & 0x7f800000) == 0x7f800000:
                return True
    return False


def precompare_C07(case, impl, model):
    """the stored phase durations t1,t2,t3 are f32 seconds converted to ns: pinned only within the rounding tolerance the property
    states.  When implementation and model differ ONLY by a few f32 ulps of seconds in those (and consequently in what the accessors
    return), the verdict is `soft`; the numeric oracle on the implementation's own outputs looks for a failing input."""
    if case.startswith("mp ") and impl != model and mp_limit_outside_range(case):
        return ("drift", "velocity / acceleration limit outside the quantified range")
    if not case.startswith("mp ") or impl == model or impl.startswith("PANIC") or model.startswith("PANIC"):
        return None
    a, b = impl.split(" "), model.split(" ")
    if len(a) != len(b) or not all(x.startswith("T:") for x in a[:3] + b[:3]):
        return None
    ta, tb = [int(x[2:]) for x in a[:3]], [int(x[2:]) for x in b[:3]]
    if ta == tb:
        return None
    ok = all(abs(x - y) <= max(abs(x), abs(y)) / 2 ** 21 + 4 for x, y in zip(ta, tb))
    return ("soft", "phase durations differ from the model within a few f32 ulps of seconds") if ok else None


def project_C07(case, line):
    """motion profile, trapezoid NUMBERS: the phase durations, the signed acceleration and the acceleration / velocity / position
    values on the moving pieces; pieces, modes, the history and what happens before the start / after completion are C06's"""
    if not case.startswith("mp ") or "PANIC" in line or line in ("NOIMPL", "BADLINE"):
        return line
    toks = line.split(" ")
    out = toks[:4]
    times = case.split(" ")[5:]
    t3 = toks[2][2:] if len(toks) > 2 and toks[2].startswith("T:") else None
    for i, tk in enumerate(toks[5:]):
        p = tk.split("/")
        if len(p) == 6 and p[0] == "CO" and t3 is not None and i < len(times) and times[i] == t3:
            out.append("-/" + "/".join(p[3:5]))      # the completion instant t3 is inside [0, t3]: velocity and position there are C07's
        elif len(p) != 6 or p[0] in ("BS", "CO"):
            out.append("-")
        else:
            out.append("/".join(p[2:5]))
    return " ".join(out)


def line_mask_C12(c):
    # what an error does to the window (reset) is C05's clause; C12 owns the averages themselves. On histories containing
    # error events only categories, timestamps and the no-panic / range oracles are checked here.
    if " E1" in c or " E2" in c:
        return {"cat", "time", "unit"}
    return {"cat", "time", "unit", "float"}


def project_C20(case, line):
    """wrappers: keep what is the wrapper's own doing (return values, whether the inner update ran, the own state slot written by
    the encoder wrapper); what the terminal sees (C09) and the PID numerics (C11) are compared by the relay oracle instead"""
    t = case.split(" ")
    if wr_follows(case):
        return line
    if t[:2] == ["wr", "act"]:
        out = []
        for tok in line.split(" "):
            ps = tok.split(";")
            out.append(";".join([ps[0], ps[2]]) if len(ps) == 4 else tok)
        return " ".join(out)
    if t[:2] == ["wr", "enc"]:
        out = []
        for tok in line.split(" "):
            ps = tok.split(";")
            out.append(";".join([ps[0], ps[1], ps[4]]) if len(ps) == 5 else tok)
        return " ".join(out)
    if t[:2] == ["wr", "pid"]:
        out = []
        for tok in line.split(" "):
            ps = tok.split(";")
            if len(ps) == 3:
                out.append(ps[0] + ";" + ("-" if ps[1] == "-" else "v"))
            elif len(tok) == 8 or tok in ("none", "nan"):
                out.append("lr")
            else:
                out.append(tok)
        return " ".join(out)
    return line


def oracle_C20(lines, impl):
    """the relay clauses on the implementation's own outputs"""
    bad = []
    for c, o in zip(lines, impl):
        t = c.split(" ")
        if "PANIC" in o or o in ("NOIMPL", "BADLINE"):
            if "PANIC" in o:
                bad.append((c, "wrapper update panicked: " + o.split(" ")[-1]))
            continue
        if wr_follows(c):
            continue        # compared with the model in full instead (project_C20 keeps every field of such lines)
        toks = o.split(" ")
        if t[:2] == ["wr", "act"]:
            for tok in toks:
                ps = tok.split(";")
                if len(ps) != 4:
                    continue
                ret, got, _, seen = ps
                if seen == "N":
                    if got != "-":
                        bad.append((c, "actuator wrapper handed over %s although its terminal sees nothing" % got)); break
                elif got != "-":
                    if got != seen.split("@", 2)[2]:
                        bad.append((c, "actuator wrapper handed over %s but its terminal sees %s" % (got, seen))); break
                elif ret == "ok":
                    bad.append((c, "actuator wrapper handed over nothing although its terminal sees %s" % seen)); break
        elif t[:2] == ["wr", "enc"]:
            evs = t[2:]
            gs, iu = "N", "ok"
            for e, tok in zip(evs, toks):
                if e.startswith("gs:"): gs = e[3:]
                elif e.startswith("iu:"): iu = e[3:]
                elif e == "upd":
                    ps = tok.split(";")
                    if len(ps) != 5:
                        continue
                    if iu == "ok" and gs.startswith("S@"):
                        want = gs[2:]                      # <time>@<state>
                        if ps[1] != want:
                            bad.append((c, "encoder wrapper: terminal holds %s after the update, getter returned %s" % (ps[1], want))); break
                    if ps[0] != "ok" and ps[0] not in (iu, gs):
                        bad.append((c, "encoder wrapper returned %s, inner update says %s and inner get %s" % (ps[0], iu, gs))); break
        elif t[:2] == ["wr", "pid"]:
            for tok in toks:
                ps = tok.split(";")
                if len(ps) != 3:
                    continue
                ret, got, sa = ps
                if got != "-":
                    if not sa.startswith("S@") or got != sa.split("@")[2]:
                        bad.append((c, "PID wrapper drove its motor with %s but a stand-alone CommandPID fed the same data gives %s" % (got, sa))); break
                elif sa.startswith("S@") and ret == "ok":
                    bad.append((c, "PID wrapper did not drive its motor although a stand-alone CommandPID gives %s" % sa)); break
    return bad


def lowest_nonzero_cmd(state_tok):
    p, v, a = state_tok.split("/")
    z = ("00000000", "80000000")
    if a not in z and not (a[:3] in ("7fc", "ffc") or a == "nan"):
        return "A" + a
    if a in z:
        if v in z:
            return "P" + p
        return "V" + v
    return "A" + a


def precompare_C06(case, impl, model):
    """accessor agreement is judged relative to the profile's OWN phase boundaries: when implementation and model disagree on
    t1,t2,t3 or on acceptance (both owned by C07), the piece at a given query time legitimately differs, so the structural
    comparison with the model is skipped (drift) and only the oracle on the implementation's own outputs decides."""
    if not case.startswith("mp "):
        return None
    if impl.startswith("PANIC") != model.startswith("PANIC"):
        return ("drift", "acceptance differs (owned by C07)")
    if impl.startswith("PANIC"):
        return ("same", None)
    if impl.split(" ")[:3] != model.split(" ")[:3]:
        return ("drift", "phase boundaries differ (owned by C07)")
    return None
