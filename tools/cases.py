"""Seeded case generators, one per property.  Structural spaces are enumerated; payload values are random.
Every generator returns a list of protocol lines (see /verif/PROTOCOL.md)."""
import itertools, math, random
from wire import *

GRID = [(m, s) for m in range(-3, 4) for s in range(-3, 4)]
CONST_NAMES = None  # filled by check.py from the regenerated table

TPAIRS = [(0, 0), (0, 1), (1, 0), (-1, 0), (0, -1), (-5, -5), (-7, -6), (-6, -7),
          (I64_MIN, I64_MIN), (I64_MIN, I64_MIN + 1), (I64_MIN + 1, I64_MIN), (I64_MAX, I64_MAX),
          (I64_MAX - 1, I64_MAX), (I64_MAX, I64_MAX - 1), (I64_MIN, I64_MAX), (I64_MAX, I64_MIN),
          (123456789, 123456790), (123456790, 123456789), (10 ** 18, 10 ** 18)]


def n_of(tier, quick, thorough):
    return thorough if tier == "thorough" else quick


# ------------------------------------------------------------------------------------------- C01
def gen_C01(rng, tier):
    L = []
    ops = ["add", "sub", "mul", "div", "addas", "subas", "mulas", "divas", "cmp", "eq"]
    reps = n_of(tier, 1, 4)
    for _ in range(reps):
        for (m1, s1) in GRID:
            for (m2, s2) in GRID:
                for op in ops:
                    L.append("q %s %s %s" % (op, q(rand_f(rng), m1, s1), q(rand_f(rng), m2, s2)))
    for (m1, s1) in GRID:
        for (m2, s2) in GRID:
            for op in ["add", "sub", "mul", "div", "addas", "subas", "mulas", "divas", "uceq", "ueqt", "ueqf", "uaok", "uanok", "ucaeq"]:
                L.append("q %s U:%d,%d U:%d,%d" % (op, m1, s1, m2, s2))
    for (m, s) in GRID:
        for _ in range(3):
            L.append("q neg %s" % q(rand_f(rng), m, s))
            L.append("q abs %s" % q(rand_f(rng), m, s))
            L.append("q tof %s" % q(rand_f(rng), m, s))
        L.append("q neg U:%d,%d" % (m, s))
        L.append("q u2pd U:%d,%d" % (m, s))
        L.append("q unew %d %d" % (m, s))
        for _ in range(2):
            L.append("q q2c %s" % q(rand_f(rng), m, s))
            L.append("q tot %s" % q(rand_f(rng, -5, 5), m, s))
            L.append("q tod %s" % q(rand_f(rng), m, s))
        # mixed operands
        for op in ["add", "sub", "mul", "div", "addas", "subas", "mulas", "divas"]:
            for _ in range(2):
                t = rng.randint(-10 ** 13, 10 ** 13)
                d = rng.randint(-10 ** 6, 10 ** 6)
                L.append("q %s %s T:%d" % (op, q(rand_f(rng), m, s), t))
                L.append("q %s %s D:%d" % (op, q(rand_f(rng), m, s), d))
                if not op.endswith("as"):
                    L.append("q %s T:%d %s" % (op, t, q(rand_f(rng), m, s)))
                    L.append("q %s D:%d %s" % (op, d, q(rand_f(rng), m, s)))
    for _ in range(n_of(tier, 200, 1000)):
        t1, t2 = rng.randint(-10 ** 13, 10 ** 13), rng.randint(-10 ** 13, 10 ** 13)
        d1 = rng.randint(-10 ** 6, 10 ** 6)
        L.append("q mul T:%d T:%d" % (t1, t2))
        L.append("q div T:%d T:%d" % (t1, t2))
        L.append("q div D:%d T:%d" % (d1, t2))
        L.append("q toq T:%d" % t1)
        L.append("q toq D:%d" % d1)
    # random exponents up to |60|
    for _ in range(n_of(tier, 3000, 20000)):
        m1, s1, m2, s2 = [rng.randint(-60, 60) for _ in range(4)]
        if rng.random() < 0.3:
            m2, s2 = m1, s1
        op = rng.choice(ops)
        L.append("q %s %s %s" % (op, q(rand_f(rng), m1, s1), q(rand_f(rng), m2, s2)))
        L.append("q %s U:%d,%d U:%d,%d" % (rng.choice(["add", "sub", "mul", "div", "mulas", "divas"]), m1, s1, m2, s2))
    # special float values: bit-level comparison only
    for a in SPECIAL_F:
        for b in SPECIAL_F:
            for op in ["add", "sub", "mul", "div", "cmp", "eq"]:
                L.append("q %s Q:%s:1,0 Q:%s:1,0" % (op, a, b))
        L.append("q neg Q:%s:1,0" % a)
        L.append("q abs Q:%s:1,0" % a)
    for n in CONST_NAMES or []:
        L.append("q const %s" % n)
    for pd in "PVA":
        L.append("q pd2u %s" % pd)
        for _ in range(3):
            L.append("q c2q %s%s" % (pd, rand_f(rng)))
            L.append("q c2pd %s%s" % (pd, rand_f(rng)))
    for p in ["BS", "IA", "CV", "EA", "CO"]:
        L.append("q mpp2pd %s" % p)
        L.append("q mpp2u %s" % p)
    return L


# ------------------------------------------------------------------------------------------- C02
CATS_F = ["E1", "E2", "N", "S"]


def mk_out(rng, cat, t, ty="f"):
    if cat != "S":
        return cat
    if ty == "f":
        return out_some(t, rand_f(rng))
    if ty == "b":
        return out_some(t, rng.choice(["true", "false"]))
    if ty == "q":
        return out_some(t, q(rand_f(rng), 1, 0))
    raise ValueError(ty)


def gen_C02(rng, tier):
    L = []
    maxn = n_of(tier, 5, 8)
    for name in ["sum", "prod", "latest"]:
        for n in range(1, maxn + 1):
            combos = list(itertools.product(CATS_F, repeat=n)) if n <= 5 else \
                [tuple(rng.choice(CATS_F) for _ in range(n)) for _ in range(3000)]
            for cats in combos:
                torders = list(itertools.product([1, 2, 3], repeat=n)) if n <= 3 else \
                    [tuple(rng.choice([1, 2, 3]) for _ in range(n)) for _ in range(2 if n <= 5 else 1)]
                for ts in torders:
                    L.append("st %s f %d %s" % (name, n, " ".join(mk_out(rng, c, t) for c, t in zip(cats, ts))))
    # n-ary at n=2 against the two-input forms on the *same* inputs (the comparator checks each against the model;
    # the model theorems relate the two)
    for c1 in CATS_F:
        for c2 in CATS_F:
            for (t1, t2) in [(1, 2), (2, 2), (3, 2)]:
                for rep in range(n_of(tier, 2, 6)):
                    a, b = mk_out(rng, c1, t1), mk_out(rng, c2, t2)
                    for name in ["sum2", "prod2", "diff", "quot", "exp"]:
                        if name == "exp":
                            L.append("st exp %s %s" % (a, b))
                        else:
                            L.append("st %s f %s %s" % (name, a, b))
                    L.append("st sum f 2 %s %s" % (a, b))
                    L.append("st prod f 2 %s %s" % (a, b))
    # if / if-else / and / or / not over {E1,E2,N,true,false}
    BC = ["E1", "E2", "N", "T", "F"]

    def mkb(c, t):
        return c if c in ("E1", "E2", "N") else out_some(t, "true" if c == "T" else "false")
    for c in BC:
        for ci in CATS_F:
            for (t1, t2) in [(1, 2), (2, 2), (3, 2)]:
                L.append("st if f %s %s" % (mkb(c, t1), mk_out(rng, ci, t2)))
                for cj in CATS_F:
                    L.append("st ifelse f %s %s %s" % (mkb(c, t1), mk_out(rng, ci, t2), mk_out(rng, cj, 5)))
        L.append("st not %s" % mkb(c, 7))
        for c2 in BC:
            for (t1, t2) in [(1, 2), (2, 2), (3, 2)]:
                L.append("st and %s %s" % (mkb(c, t1), mkb(c2, t2)))
                L.append("st or %s %s" % (mkb(c, t1), mkb(c2, t2)))
    # expirer: input category x time getter category x age (<,=,>) limit
    for ci in CATS_F:
        for ct in ["T", "E1", "E2"]:
            for limit in [0, 5, 1000]:
                for age in [limit - 1, limit, limit + 1]:
                    t0 = rng.randint(-10 ** 9, 10 ** 9)
                    now = ("T:%d" % (t0 + age)) if ct == "T" else ct
                    L.append("st expirer f %s %s %d" % (mk_out(rng, ci, t0), now, limit))
                    L.append("st n2v f %s %s %s" % (mk_out(rng, ci, t0), now, rand_f(rng)))
            L.append("st const f %s %s" % (("T:%d" % rng.randint(-99, 99)) if ct == "T" else ct, rand_f(rng)))
        L.append("st n2e f %s" % mk_out(rng, ci, 3))
        L.append("st tgfg f %s" % mk_out(rng, ci, rng.randint(-99, 99)))
    L.append("st none f")
    # other payload types through the type-generic combinators
    for ty in ["b", "q"]:
        for ci in CATS_F:
            L.append("st n2e %s %s" % (ty, mk_out(rng, ci, 3, ty)))
            L.append("st latest %s 2 %s %s" % (ty, mk_out(rng, ci, 3, ty), mk_out(rng, "S", 2, ty)))
            L.append("st if %s S@1@true %s" % (ty, mk_out(rng, ci, 3, ty)))
    return L


# ------------------------------------------------------------------------------------------- C03
def rand_val(rng, ty):
    if ty == "f":
        return rand_f(rng)
    if ty == "q":
        return q(rand_f(rng), 1, -1)
    if ty == "s":
        return state(rand_f(rng), rand_f(rng), rand_f(rng))
    if ty == "c":
        return "P" + rand_f(rng)
    if ty == "b":
        return rng.choice(["true", "false"])


def gen_C03(rng, tier):
    L = []
    pairs = TPAIRS + [(rng.randint(-10 ** 15, 10 ** 15), rng.randint(-10 ** 15, 10 ** 15)) for _ in range(n_of(tier, 10, 60))]
    for (t1, t2) in pairs:
        for ty in "fqsc":
            for op in ["add", "sub", "mul", "div", "addas", "subas", "mulas", "divas"]:
                second = "f" if (ty in "sc" and op[:3] in ("mul", "div")) else ty
                # for ty=q mul/div any units; add/sub same units (unit panics belong to C01)
                a = "%d@%s" % (t1, rand_val(rng, ty))
                L.append("d %s %s %s %d@%s" % (op, ty, a, t2, rand_val(rng, second)))
                L.append("d %s %s %s %s" % (op, ty, a, rand_val(rng, second)))
            L.append("d neg %s %d@%s" % (ty, t1, rand_val(rng, ty)))
        L.append("d not b %d@%s" % (t1, rand_val(rng, "b")))
        for ty in "fqscb":
            a, b = "%d@%s" % (t1, rand_val(rng, ty)), "%d@%s" % (t2, rand_val(rng, ty))
            L.append("d rio %s %s %s" % (ty, a, b))
            L.append("d rino %s %s %s" % (ty, a, b))
            L.append("d rino %s none %s" % (ty, b))
            L.append("d rinoo %s %s %s" % (ty, a, b))
            L.append("d rinoo %s none %s" % (ty, b))
            L.append("d rinoo %s %s none" % (ty, a))
            L.append("d rinoo %s none none" % ty)
            L.append("d latest %s %s %s" % (ty, a, b))
        # stream-level timestamps
        a, b = out_some(t1, rand_f(rng)), out_some(t2, rand_f(rng))
        for name in ["sum2", "prod2", "diff", "quot"]:
            L.append("st %s f %s %s" % (name, a, b))
        L.append("st exp %s %s" % (a, b))
        L.append("st sum f 2 %s %s" % (a, b))
        L.append("st prod f 2 %s %s" % (a, b))
        L.append("st latest f 2 %s %s" % (a, b))
        for x in ["true", "false"]:
            for y in ["true", "false"]:
                L.append("st and S@%d@%s S@%d@%s" % (t1, x, t2, y))
                L.append("st or S@%d@%s S@%d@%s" % (t1, x, t2, y))
    # n-ary: every order pattern of up to 4 timestamps, some inputs absent
    for n in range(1, 5):
        for ts in itertools.product([-1, 0, 1, 2], repeat=n):
            present = [rng.random() < 0.85 for _ in range(n)]
            ins = " ".join(out_some(t, rand_f(rng)) if p else rng.choice(["N", "N", "E1"]) for t, p in zip(ts, present))
            L.append("st latest f %d %s" % (n, ins))
            ins2 = " ".join(out_some(t, rand_f(rng)) if p else "N" for t, p in zip(ts, present))
            L.append("st sum f %d %s" % (n, ins2))
            L.append("st prod f %d %s" % (n, ins2))
    return L


GENERATORS = {"C01": gen_C01, "C02": gen_C02, "C03": gen_C03}


# ------------------------------------------------------------------------------------------- C14
def rand_state(rng):
    def comp():
        r = rng.random()
        if r < 0.25:
            return "00000000"
        if r < 0.30:
            return "80000000"
        return rand_f(rng)
    return "%s/%s/%s" % (comp(), comp(), comp())


def gen_C14(rng, tier):
    L = []
    n = n_of(tier, 3000, 20000)
    for _ in range(n):
        s = rand_state(rng)
        dt = rng.choice([0, 1, -1, 2_000_000_000, -2_000_000_000, rng.randint(-10 ** 14, 10 ** 14), rng.randint(-10 ** 9, 10 ** 9)])
        L.append("k supd %s %d" % (s, dt))
    for (m, sx) in GRID:
        for op in ["ssetp", "ssetv", "sseta"]:
            for _ in range(n_of(tier, 2, 6)):
                L.append("k %s %s %s" % (op, rand_state(rng), q(rand_f(rng), m, sx)))
        # State::new with one argument of this unit in each position
        L.append("k snew %s %s %s" % (q(rand_f(rng), m, sx), q(rand_f(rng), 1, -1), q(rand_f(rng), 1, -2)))
        L.append("k snew %s %s %s" % (q(rand_f(rng), 1, 0), q(rand_f(rng), m, sx), q(rand_f(rng), 1, -2)))
        L.append("k snew %s %s %s" % (q(rand_f(rng), 1, 0), q(rand_f(rng), 1, -1), q(rand_f(rng), m, sx)))
    for _ in range(n_of(tier, 600, 4000)):
        s, s2 = rand_state(rng), rand_state(rng)
        f = rand_f(rng)
        for op in ["ssetpr", "ssetvr", "ssetar", "smul", "sdiv", "smulas", "sdivas"]:
            L.append("k %s %s %s" % (op, s, f))
        for op in ["sadd", "ssub", "saddas", "ssubas", "seq"]:
            L.append("k %s %s %s" % (op, s, s2))
        for op in ["sgetp", "sgetv", "sgeta", "sneg", "cfroms"]:
            L.append("k %s %s" % (op, s))
        for pd in "PVA":
            L.append("k sget %s %s" % (s, pd))
            L.append("k cnew %s %s" % (pd, f))
        L.append("k snewraw %s %s %s" % tuple(s.split("/")))
    for k1 in "PVA":
        for k2 in "PVA":
            for _ in range(n_of(tier, 30, 200)):
                a, b = k1 + rand_f(rng), k2 + rand_f(rng)
                for op in ["cadd", "csub", "caddas", "csubas", "ceq"]:
                    L.append("k %s %s %s" % (op, a, b))
        for _ in range(n_of(tier, 60, 400)):
            a = k1 + rng.choice([rand_f(rng), "00000000", "80000000", "7fc00000"])
            f = rand_f(rng)
            for op in ["cmul", "cdiv", "cmulas", "cdivas"]:
                L.append("k %s %s %s" % (op, a, f))
            for op in ["ckind", "craw", "cpos", "cvel", "cacc", "cneg"]:
                L.append("k %s %s" % (op, a))
            L.append("k ceq %s %s" % (a, a))
            L.append("q c2q %s" % a)
    for (m, sx) in GRID:
        L.append("q q2c %s" % q(rand_f(rng), m, sx))
    for _ in range(n_of(tier, 300, 2000)):
        L.append("k pidk %s" % " ".join(rand_f(rng) for _ in range(6)))
        L.append("k pidk3 %s %s %s" % (" ".join(rand_f(rng) for _ in range(9)), rng.choice("PVA"), " ".join(rand_f(rng) for _ in range(3))))
        L.append("k pidk3get %s %s" % (" ".join(rand_f(rng) for _ in range(9)), rng.choice("PVA")))
    return L


# ------------------------------------------------------------------------------------------- C18
def strat_i64(rng):
    """stratified over magnitudes 0..2^62 and signs, plus neighbourhoods of 2^24*2^k (rounding ties)"""
    r = rng.random()
    if r < 0.1:
        return rng.choice([0, 1, -1, 2, -2, I64_MAX, I64_MIN, I64_MAX - 1, I64_MIN + 1])
    if r < 0.45:
        k = rng.randint(0, 62)
        return rng.choice([-1, 1]) * rng.randint(2 ** k // 2, 2 ** k)
    if r < 0.75:
        k = rng.randint(24, 62)
        return rng.choice([-1, 1]) * (2 ** k + rng.randint(-3, 3) * 2 ** max(0, k - 24) // 2 + rng.randint(-2, 2))
    return rng.randint(-10 ** 12, 10 ** 12)


def gen_C18(rng, tier):
    L = []
    n = n_of(tier, 6000, 50000)
    for _ in range(n):
        a, b = strat_i64(rng), strat_i64(rng)
        if rng.random() < 0.5:
            b = rng.choice([0, 1, -1, 2, 3, -7, 1000, 10 ** 9, rng.randint(-10 ** 6, 10 ** 6)])
        ty = rng.choice("TD")
        op = rng.choice(["add", "sub", "addas", "subas"])
        L.append("q %s %s:%d %s:%d" % (op, ty, a, ty, b))
        op = rng.choice(["mul", "div", "mulas", "divas"])
        L.append("q %s D:%d D:%d" % (op, a, b))
        L.append("q %s T:%d D:%d" % (op, a, b))
        L.append("q %s D:%d T:%d" % (rng.choice(["mul", "div"]), b, a))
        L.append("q neg %s:%d" % (ty, a))
    # conversions
    ts = sorted(set(strat_i64(rng) for _ in range(n_of(tier, 4000, 40000))))
    for t in ts:
        L.append("q toq T:%d" % t)
        L.append("q toq D:%d" % t)
        L.append("q toi T:%d" % t)
        L.append("q mkt I:%d" % t)
        L.append("q mkd I:%d" % t)
    # f32 seconds below 9e9, stratified exponent/mantissa sampling
    for _ in range(n_of(tier, 6000, 50000)):
        e = rng.randint(1, 160)          # biased exponent: 2^-126 .. 2^33
        man = rng.choice([0, 1, 0x7fffff, 0x400000, rng.randint(0, 0x7fffff)])
        bits = (rng.randint(0, 1) << 31) | (e << 23) | man
        h = "%08x" % bits
        if abs(h2f(h)) >= 9e9:
            continue
        L.append("q tot Q:%s:0,1" % h)
        L.append("q tod Q:%s:0,0" % h)
    for (m, s) in GRID:
        L.append("q tot %s" % q(rand_f(rng, -5, 5), m, s))
        L.append("q tod %s" % q(rand_f(rng), m, s))
    # mixed operators yielding a Quantity, on all 49 units
    for (m, s) in GRID:
        for op in ["add", "sub", "mul", "div", "addas", "subas", "mulas", "divas"]:
            for _ in range(n_of(tier, 2, 8)):
                t = rng.choice([strat_i64(rng), rng.randint(-10 ** 13, 10 ** 13)])
                L.append("q %s %s T:%d" % (op, q(rand_f(rng), m, s), t))
                L.append("q %s %s D:%d" % (op, q(rand_f(rng), m, s), t))
                if not op.endswith("as"):
                    L.append("q %s T:%d %s" % (op, t, q(rand_f(rng), m, s)))
                    L.append("q %s D:%d %s" % (op, t, q(rand_f(rng), m, s)))
    for _ in range(n_of(tier, 500, 4000)):
        a, b = strat_i64(rng), strat_i64(rng)
        L.append("q mul T:%d T:%d" % (a, b))
        L.append("q div T:%d T:%d" % (a, b))
        L.append("q div D:%d T:%d" % (a, b))
    return L


GENERATORS.update({"C14": gen_C14, "C18": gen_C18})
