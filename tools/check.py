#!/usr/bin/env python3
"""/verif/check <ID> [--tier quick|thorough] [--replay file]

Decides one property:
  1. regenerate the table-shaped model parts from /repo (tools/gen.py);
  2. `lake build` the property's theorem module + the driver; audit every theorem of namespace
     Rrtk.Thm.<ID> (axioms ⊆ {propext, Classical.choice, Quot.sound}; textual scan for sorry/axiom/…);
  3. rebuild the Rust harness from /repo's working tree (cfg rrtk_verif), generate the property's cases,
     run harness and Lean driver on the same file, compare field by field on the observables the property owns;
  4. verdict + evidence/<ID>.json.
Exit 0: theorems check, model and implementation agree.  Exit 1: `VIOLATION property=<ID> replay=<file>`.
"""
import sys, os, json, time, subprocess, random, re, hashlib, shutil

HERE = os.path.dirname(os.path.abspath(__file__))
VERIF = os.path.dirname(HERE)
sys.path.insert(0, HERE)
import wire, cases
import props, kat

LEAN = os.path.join(VERIF, "lean")
HARNESS = os.path.join(VERIF, "harness")
WORK = os.path.join(VERIF, "work")
REPO = os.environ.get("VERIF_REPO", "/repo")
ALLOWED_AXIOMS = {"propext", "Classical.choice", "Quot.sound"}
FORBIDDEN = re.compile(r"\b(sorry|admit|native_decide|bv_decide|implemented_by|unsafe)\b|^\s*axiom\s|maxHeartbeats\s+0")


def sh(cmd, cwd=None, env=None, timeout=None, inp=None):
    e = dict(os.environ)
    e["CARGO_NET_OFFLINE"] = "true"
    if env:
        e.update(env)
    p = subprocess.run(cmd, cwd=cwd, env=e, stdout=subprocess.PIPE, stderr=subprocess.STDOUT,
                       timeout=timeout, input=inp, text=True, shell=isinstance(cmd, str))
    return p.returncode, "\n".join(l for l in p.stdout.splitlines() if not l.startswith("WARNING conda"))


def strip_lean_comments(src):
    # remove /- ... -/ (nested) and -- comments
    out, i, depth = [], 0, 0
    while i < len(src):
        if src.startswith("/-", i):
            depth += 1; i += 2; continue
        if depth and src.startswith("-/", i):
            depth -= 1; i += 2; continue
        if depth:
            if src[i] == "\n": out.append("\n")
            i += 1; continue
        if src.startswith("--", i):
            while i < len(src) and src[i] != "\n": i += 1
            continue
        out.append(src[i]); i += 1
    return "".join(out)


def lean_sources_of(module_file):
    """transitive local imports of a Lean file (Rrtk.*)"""
    seen, todo = [], [module_file]
    while todo:
        f = todo.pop()
        if f in seen or not os.path.exists(f):
            continue
        seen.append(f)
        for m in re.findall(r"^import\s+(Rrtk[\w.]*)", open(f).read(), re.M):
            todo.append(os.path.join(LEAN, m.replace(".", "/") + ".lean"))
    return seen


def lean_phase(pid, tier, log):
    """returns dict(ok, obligations, discharged, theorems[], failures[], axioms{})"""
    res = {"ok": True, "obligations": 0, "discharged": 0, "theorems": [], "failures": [], "axioms": {}}
    ns = "Rrtk.Thm.%s" % pid
    mod = ns
    # optional extension module: imports the property file and adds further theorems to the SAME namespace (used where the
    # additions need lemma files that themselves import the property file)
    if os.path.exists(os.path.join(LEAN, "Rrtk", "Thm", "Ext", pid + ".lean")):
        mod = "Rrtk.Thm.Ext.%s" % pid
    rc, out = sh(["lake", "build", mod, "driver", "Rrtk.Audit"], cwd=LEAN, timeout=3000)
    log.append(out[-4000:])
    if rc != 0:
        res["ok"] = False
        errs = re.findall(r"error: (Rrtk/[^\n]+)", out)
        res["failures"].append({"kind": "lake build failed", "errors": errs[:20]})
        return res
    # snapshot modules: facts about TODAY's regenerated tables that the property does not require (e.g. which variants `to_dyn!` lists);
    # built separately — a failure is informational drift, never a violation
    for sm in props.PROPS.get(pid, {}).get("snapshot_modules", []):
        rcs, outs = sh(["lake", "build", sm], cwd=LEAN, timeout=3000)
        res.setdefault("snapshots", {})[sm] = "holds" if rcs == 0 else "no longer holds (informational: not required by the property)"
    # textual scan of the property's theorem file and everything it imports locally
    for f in lean_sources_of(os.path.join(LEAN, mod.replace(".", "/") + ".lean")):
        body = strip_lean_comments(open(f).read())
        for ln in body.splitlines():
            if FORBIDDEN.search(ln):
                res["ok"] = False
                res["failures"].append({"kind": "forbidden token", "file": os.path.relpath(f, LEAN), "line": ln.strip()[:200]})
    os.makedirs(WORK, exist_ok=True)
    af = os.path.join(WORK, "audit_%s.lean" % pid)
    with open(af, "w") as f:
        f.write("import %s\nimport Rrtk.Audit\n#audit_ns %s\n" % (mod, ns))
    rc, out = sh(["lake", "env", "lean", af], cwd=LEAN, timeout=1200)
    if rc != 0:
        res["ok"] = False
        res["failures"].append({"kind": "audit failed", "output": out[-2000:]})
        return res
    for m in re.finditer(r"AUDIT (\S+) axioms=\[(.*?)\]", out):
        name, axs = m.group(1), [a.strip() for a in m.group(2).split(",") if a.strip()]
        res["obligations"] += 1
        res["theorems"].append(name)
        res["axioms"][name] = axs
        if set(axs) <= ALLOWED_AXIOMS:
            res["discharged"] += 1
        else:
            res["ok"] = False
            res["failures"].append({"kind": "inadmissible axioms", "theorem": name, "axioms": axs})
    if res["obligations"] == 0:
        res["ok"] = False
        res["failures"].append({"kind": "no theorems found in namespace"})
    if tier == "thorough":
        rc, out = sh(["lake", "env", "leanchecker", mod], cwd=LEAN, timeout=3000)
        res["leanchecker_rc"] = rc
        if rc != 0:
            res["ok"] = False
            res["failures"].append({"kind": "leanchecker", "output": out[-2000:]})
    return res


def build_harness(features, log):
    """features: None -> default; `release:<features>` -> release profile. returns path of the binary or None"""
    tgt = os.path.join(HARNESS, "target")
    cmd = ["cargo", "build", "--offline", "--quiet"]
    name = "default"
    prof = "debug"
    if features is not None:
        f = features
        if f.startswith("release:"):
            f = f[len("release:"):]
            prof = "release"
            cmd += ["--release"]
        cmd += ["--no-default-features", "--features", f]
        name = features.replace(",", "_").replace(":", "_")
        tgt = os.path.join(HARNESS, "target", "cfg_" + name)
        cmd += ["--target-dir", tgt]
    if os.environ.get("VERIF_NO_CARGO"):   # debugging aid only: reuse the existing binary
        return os.path.join(tgt, prof, "harness")
    rc, out = sh(cmd, cwd=HARNESS, env={"RUSTFLAGS": "--cfg rrtk_verif"}, timeout=3000)
    log.append(out[-3000:])
    if rc != 0:
        return None
    return os.path.join(tgt, prof, "harness")


RUN_TIMEOUT = int(os.environ.get("VERIF_RUN_TIMEOUT", "240"))


def run_prog(cmd, lines, cwd=None, timeout=None):
    """feed the case lines to harness / driver. A run that does not finish within the limit (an implementation change that loops forever
    on some case) returns rc = -9 and, as far as a bisection with short limits can tell, the index of the first line that hangs."""
    try:
        p = subprocess.run(cmd, input="\n".join(lines) + "\n", stdout=subprocess.PIPE, stderr=subprocess.PIPE,
                           text=True, cwd=cwd, timeout=timeout or RUN_TIMEOUT)
    except subprocess.TimeoutExpired:
        lo, hi = 0, len(lines)          # invariant: prefix of length lo terminates, prefix of length hi does not (within the short limit)
        while hi - lo > 1 and timeout is None:
            mid = (lo + hi) // 2
            try:
                subprocess.run(cmd, input="\n".join(lines[:mid]) + "\n", stdout=subprocess.PIPE, stderr=subprocess.PIPE, text=True,
                               cwd=cwd, timeout=max(20, RUN_TIMEOUT // 10))
                lo = mid
            except subprocess.TimeoutExpired:
                hi = mid
        return -9, [], "TIMEOUT first-hanging-line-index=%d" % (hi - 1)
    out = p.stdout.split("\n")
    if out and out[-1] == "":
        out.pop()
    return p.returncode, out, p.stderr[-2000:]


def load_corpus(pid):
    d = os.path.join(VERIF, "corpus", pid)
    L = []
    if os.path.isdir(d):
        for fn in sorted(os.listdir(d)):
            with open(os.path.join(d, fn)) as f:
                L += [l.rstrip("\n") for l in f if l.strip() and not l.startswith("#")]
    return L


def known_findings(pid):
    """lines of known_findings.txt: `finding: property=<ID> key=<regex on case line> :: text` or `fixed: ...`"""
    out = []
    p = os.path.join(VERIF, "known_findings.txt")
    if os.path.exists(p):
        for l in open(p):
            m = re.match(r"finding:\s+property=(\S+)\s+key=(\S+)\s+::\s*(.*)", l.strip())
            if m and m.group(1) == pid:
                out.append((re.compile(m.group(2)), m.group(3)))
    return out


_ERR_TOK = re.compile(r"^E(\d+|N)$")


def _cut_at_follower_error(case, line):
    """Terminals that FOLLOW getters: a `Terminal::update` asks its two followed getters one after the other and a device / wrapper
    update visits its terminals one after the other, each step ending the update at the first error.  No property fixes these ORDERS
    (C15 speaks about one settable and its one getter), so what has or has not been forwarded when an update returns an error — and which
    of several errors it is — is not pinned: such a line is compared up to and including THAT an error was returned."""
    t = case.split(" ")
    if t[0] == "dv" and any(x.startswith(("fs:", "fc:")) for x in t):
        out = []
        for tok in line.split(" "):
            if _ERR_TOK.match(tok):
                out.append("ERR"); break
            out.append(tok)
        return " ".join(out)
    if t[0] == "wr" and ("tfs" in t or "tfc" in t):
        out = []
        for tok in line.split(" "):
            if ";" in tok and _ERR_TOK.match(tok.split(";")[0]):
                out.append("ERR"); break
            out.append(tok)
        return " ".join(out)
    return line


def own_observables(case, line):
    """Observables no property pins down are removed before anything is compared.  Group `ss` prints `<update() return>/<get()>` per
    event: what a stream's own `update()` RETURNS is not constrained by any property (C05/C04/C10-C12 speak about `get()`; only the
    Settable-following clause of C15 and the wrappers of C20 speak about propagated errors, and they are observed in groups se / wr),
    so only the get() part is kept (`lr=…` tokens, the last request of C11/C15, are kept whole)."""
    if case.startswith(("dv ", "wr ")):
        return _cut_at_follower_error(case, line)
    if not case.startswith("ss "):
        return line
    out = []
    for tok in line.split(" "):
        if "/" in tok and not tok.startswith("lr=") and not tok.startswith("PANIC"):
            head, rest = tok.split("/", 1)
            if head in ("ok", "-", "err") or head.startswith("E"):
                tok = rest
        out.append(tok)
    return " ".join(out)


def shrink_case(case, P, hbin, driver, drv_arg, budget=400):
    """delta-debugging on the tokens of one failing case line: delete tokens (events / operations) as long as harness and driver
    still accept the line and still disagree on the observables the property owns. Returns (shrunk line, impl, model) or None."""
    def verdicts(cands):
        rc1, impl, _ = run_prog([hbin], cands)
        rc2, model, _ = run_prog([driver] + drv_arg.split(), cands)
        out = []
        if len(impl) != len(cands) or len(model) != len(cands):
            return [None] * len(cands)
        for c, a, b in zip(cands, impl, model):
            if a in ("NOIMPL", "BADLINE", "") or b in ("NOIMPL", "BADLINE", ""):
                out.append(None); continue
            a, b = own_observables(c, a), own_observables(c, b)
            pre = P["precompare"](c, a, b) if "precompare" in P else None
            if pre is not None:
                v = pre[0]
            else:
                lm = P["line_mask"](c) if "line_mask" in P else P["mask"]
                aa, bb = (P["project"](c, a), P["project"](c, b)) if "project" in P else (a, b)
                v = wire.compare_lines(aa, bb, lm, P.get("tol"), P.get("float_value_eq", False))[0]
            if v == "hard" and "accept" in P and P["accept"](c, a, b):
                v = "same"
            out.append((a, b) if v == "hard" else None)
        return out
    toks = case.split(" ")
    keep = 2 if len(toks) > 2 else len(toks)        # group and op are never removed
    best = None
    n = 2
    spent = 0
    while len(toks) - keep >= 1 and spent < budget:
        body = toks[keep:]
        size = max(1, len(body) // n)
        cands = []
        for i in range(0, len(body), size):
            cands.append(" ".join(toks[:keep] + body[:i] + body[i + size:]))
        spent += len(cands)
        vs = verdicts(cands)
        hit = next((k for k, v in enumerate(vs) if v is not None), None)
        if hit is not None:
            toks = cands[hit].split(" ")
            best = (cands[hit],) + vs[hit]
            n = max(n - 1, 2)
        elif size == 1:
            break
        else:
            n = min(len(body), n * 2)
    return best


def source_fingerprint():
    """sha256 over /repo's src/ tree and Cargo.toml (the files a change to the crate can touch)"""
    h = hashlib.sha256()
    files = [os.path.join(REPO, "Cargo.toml")]
    for root, dirs, fns in os.walk(os.path.join(REPO, "src")):
        dirs.sort()
        files += [os.path.join(root, fn) for fn in sorted(fns)]
    for f in files:
        try:
            h.update(os.path.relpath(f, REPO).encode() + b"\0" + open(f, "rb").read() + b"\0")
        except OSError:
            pass
    return h.hexdigest()


def source_changed():
    """True when /repo's sources differ from the tree these checks were last validated on (baseline_src.sha256, committed).
    A changed tree is searched more deeply: the case generators run at their thorough sizes even in the quick tier."""
    env = os.environ.get("VERIF_DEEP")
    if env is not None and env != "":
        return env not in ("0", "false", "no")
    try:
        base = open(os.path.join(VERIF, "baseline_src.sha256")).read().split()[0]
    except Exception:
        return False
    return base != source_fingerprint()


def main():
    args = sys.argv[1:]
    if not args:
        print(__doc__); sys.exit(2)
    pid = args[0]
    tier = os.environ.get("VERIF_TIER", "quick")
    replay = None
    i = 1
    while i < len(args):
        if args[i] == "--tier": tier = args[i + 1]; i += 2
        elif args[i] == "--replay": replay = args[i + 1]; i += 2
        else: i += 1
    seed = int(os.environ.get("VERIF_SEED", "0") or 0)
    t0 = time.time()
    P = props.PROPS[pid]
    log = []
    os.makedirs(WORK, exist_ok=True)
    os.makedirs(os.path.join(VERIF, "evidence"), exist_ok=True)
    os.makedirs(os.path.join(VERIF, "replay"), exist_ok=True)

    # 1. regenerate table-shaped parts
    rc, out = sh([sys.executable, os.path.join(HERE, "gen.py")])
    if rc != 0:
        log.append("gen.py failed: " + out)
    # constant names for the generators
    try:
        cases.CONST_NAMES = re.findall(r'⟨"([A-Z0-9_]+)"', open(os.path.join(LEAN, "Rrtk/Gen/Constants.lean")).read())
    except Exception:
        cases.CONST_NAMES = []

    violations = []   # dicts(kind, found_input, ...)
    known_hits = []

    # 2. theorems
    lean = lean_phase(pid, tier, log)

    # 3. correspondence
    corr = {"evaluations": 0, "distinct_nontrivial": 0, "disagreements": 0, "hard": 0, "soft": 0, "drift": 0,
            "samples": [], "histogram": {}, "configs": []}
    rng = random.Random(seed * 1000003 + int(hashlib.sha1(pid.encode()).hexdigest()[:6], 16))
    configs = P.get("configs_thorough" if tier == "thorough" else "configs", [(None, "chk")])
    deep = (tier != "thorough") and source_changed()
    gen_tier = "thorough" if deep else tier
    # generators that need private boundaries (motion profiles) ask the freshly built default harness
    cases.HARNESS_BIN = build_harness(configs[0][0], log)
    if replay:
        rp = json.load(open(replay))
        lines = rp.get("cases", [])
    else:
        # generated lines FIRST: the generators' metamorphic relations refer to line indices; corpus and known answers follow
        lines = P["gen"](rng, gen_tier) + load_corpus(pid) + [k["case"] for k in kat.KATS.get(pid, [])]
    driver = os.path.join(LEAN, ".lake", "build", "bin", "driver")
    kf = known_findings(pid)
    extra = None
    outs_by_config = {}
    models_by_config = {}
    for feat, drv_arg in configs:
        hbin = build_harness(feat, log)
        cname = feat or "default"
        corr["configs"].append(cname)
        cases.CONFIG_CHECKED[cname] = (drv_arg.split()[0] == "chk")
        if hbin is None:
            violations.append({"kind": "harness build failed (correspondence cannot be established)", "config": cname,
                               "found_input": False, "log": log[-1][-1500:]})
            continue
        if not os.path.exists(driver):
            violations.append({"kind": "driver missing (lake build failed)", "found_input": False})
            break
        rc1, impl, err1 = run_prog([hbin], lines)
        rc2, model, err2 = run_prog([driver] + drv_arg.split(), lines)
        if rc1 == -9 and err1.startswith("TIMEOUT"):
            k = int(err1.split("=")[1])
            violations.append({"kind": "the implementation does not terminate (harness exceeded %d s; the model answers this line)" % RUN_TIMEOUT,
                               "config": cname, "case": lines[k] if 0 <= k < len(lines) else "?", "found_input": 0 <= k < len(lines)})
            break       # (no point in waiting for the other configurations)
        if len(impl) != len(lines) and len(model) == len(lines):
            # the harness process died (abort, stack overflow, allocation failure ...) on some case: bisect for the first such line
            lo, hi = 0, len(lines)      # prefix lo answers every line, prefix hi does not
            while hi - lo > 1:
                mid = (lo + hi) // 2
                rcx, outx, errx = run_prog([hbin], lines[:mid], timeout=RUN_TIMEOUT)
                if len(outx) == mid:
                    lo = mid
                else:
                    hi = mid
            violations.append({"kind": "the implementation aborts the process on this case (not a catchable panic): " + err1[-300:],
                               "config": cname, "case": lines[hi - 1], "model": model[hi - 1][:300], "found_input": True})
            continue
        if len(impl) != len(lines) or len(model) != len(lines):
            violations.append({"kind": "harness/driver crashed or lost lines", "config": cname, "found_input": False,
                               "impl_lines": len(impl), "model_lines": len(model), "n": len(lines),
                               "stderr": (err1 + err2)[-800:]})
            continue
        outs_by_config[cname] = impl
        models_by_config[cname] = model
        # tie-break variants of the device model (tools/gen.py): what they disagree on among themselves is not fixed by any property
        variants = {}
        dv_idx = [k for k, c in enumerate(lines) if c.startswith(("dv ", "wr "))]
        if dv_idx:
            sub = [lines[k] for k in dv_idx]
            for tv in ("tie1", "tie2", "tie3"):
                rcv, outv, errv = run_prog([driver] + drv_arg.split() + [tv], sub)
                if len(outv) == len(sub):
                    for k, o in zip(dv_idx, outv):
                        variants.setdefault(k, []).append(o)
        seen = set()
        hist = corr["histogram"]
        for k, (c, a, b) in enumerate(zip(lines, impl, model)):
            corr["evaluations"] += 1
            grp = " ".join(c.split(" ")[:2])
            hist[grp] = hist.get(grp, 0) + 1
            if "PANIC:" in b:
                kk = "panic:" + b.split("PANIC:")[1].split(" ")[0]
                hist[kk] = hist.get(kk, 0) + 1
            if c not in seen:
                seen.add(c)
                if b not in ("NOIMPL", "BADLINE", ""):
                    corr["distinct_nontrivial"] += 1
            if b in ("NOIMPL", "BADLINE") and a == b:
                hist["skipped:" + b] = hist.get("skipped:" + b, 0) + 1
                continue
            lm = P["line_mask"](c) if "line_mask" in P else P["mask"]
            a, b = own_observables(c, a), own_observables(c, b)
            pre = P["precompare"](c, a, b) if "precompare" in P else None
            if pre is not None:
                v, detail = pre
            else:
                vs = [own_observables(c, x) for x in variants.get(k, [])]
                if "project" in P:      # compare only the observables this property owns
                    a, b = P["project"](c, a), P["project"](c, b)
                    vs = [P["project"](c, x) for x in vs]
                if vs and any(x != b for x in vs) and \
                        wire.compare_lines(a, b, lm, P.get("tol"), P.get("float_value_eq", False))[0] in ("hard", "soft"):
                    # model and implementation differ on a line whose outcome depends on a tie-break no property fixes: an
                    # implementation line that equals one of the variants is conformant; otherwise compare up to the first token
                    # on which the variants disagree with the model
                    if any(wire.compare_lines(a, x, lm, None, P.get("float_value_eq", False))[0] in ("same", "drift") for x in vs):
                        corr["accepted_alternatives"] = corr.get("accepted_alternatives", 0) + 1
                        continue
                    bt = b.split(" ")
                    cut = len(bt)
                    for x in vs:
                        xt = x.split(" ")
                        j = 0
                        while j < min(len(xt), len(bt)) and xt[j] == bt[j]:
                            j += 1
                        if j < max(len(xt), len(bt)):
                            cut = min(cut, j)
                    corr["tie_dependent_suffixes_skipped"] = corr.get("tie_dependent_suffixes_skipped", 0) + 1
                    a, b = " ".join(a.split(" ")[:cut]), " ".join(bt[:cut])
                v, detail = wire.compare_lines(a, b, lm, P.get("tol"), P.get("float_value_eq", False))
                # per-configuration exemption with a bound (C19: powf under libm / micromath): inside the bound = agreement
                if v in ("hard", "soft") and "config_tol" in P:
                    ct = P["config_tol"](cname, c)
                    if ct == "skip":
                        v, detail = "drift", "exempt in this configuration"
                    elif ct is not None:
                        v2, d2 = wire.compare_lines(a, b, lm, ct, True)
                        if v2 in ("same", "soft"):
                            v, detail = "same", None
            if v == "same":
                if len(corr["samples"]) < 6 and (k % max(1, len(lines) // 6) == 0):
                    corr["samples"].append({"case": c[:300], "impl": a[:300], "model": b[:300], "config": cname})
                continue
            if v == "drift":
                corr["drift"] += 1
                continue
            if P.get("model_informational"):
                # this property is decided by comparing CONFIGURATIONS with each other (cross oracle); a disagreement with the
                # model that is the same in every configuration belongs to the property that owns that behaviour
                corr["informational_model_disagreements"] = corr.get("informational_model_disagreements", 0) + 1
                continue
            # the model fixes one of several outputs the property allows (e.g. tie-breaking among equally new candidates):
            # an implementation output that differs from the model's but still satisfies the property's own predicate is accepted
            if "accept" in P and P["accept"](c, a, b):
                corr["accepted_alternatives"] = corr.get("accepted_alternatives", 0) + 1
                continue
            corr["disagreements"] += 1
            kfhit = [txt for (rx, txt) in kf if rx.search(c)]
            if kfhit:
                known_hits.append((c, kfhit[0]))
                continue
            if v == "hard":
                corr["hard"] += 1
            else:
                corr["soft"] += 1
            if len(violations) < 50:
                violations.append({"kind": "model/implementation disagreement", "config": cname, "case": c,
                                   "impl": a, "model": b, "detail": detail, "found_input": v == "hard"})
        # kernel-anchored known answers (tools/kat.py): outputs the Lean kernel computed from the model at the SoftFloat scalar
        # (a mismatch means the implementation no longer computes what the kernel computed from the model: the correspondence is broken on
        #  this input; whether the PROPERTY fails there is for the comparison / oracles to say, so no failing input is claimed here)
        for (c, msg) in kat.check(pid, lines, impl):
            violations.append({"kind": "correspondence: " + msg, "config": cname, "case": c, "found_input": False})
        corr["kernel_anchored_known_answers"] = [k["theorem"] for k in kat.KATS.get(pid, []) if k["case"] in lines]
        # property-specific extra oracle on the implementation's own outputs (metamorphic / structural)
        if "oracle" in P:
            for (c, msg) in P["oracle"](lines, impl):
                kfhit = [txt for (rx, txt) in kf if rx.search(c)]
                if kfhit:
                    known_hits.append((c, kfhit[0]))
                    continue
                violations.append({"kind": "oracle: " + msg, "config": cname, "case": c, "found_input": True})
    # cross-configuration oracle on the implementation's own outputs (C19)
    if "cross" in P and len(outs_by_config) > 1:
        for (c, msg) in P["cross"](lines, outs_by_config, models_by_config):
            violations.append({"kind": "cross-configuration: " + msg, "case": c, "found_input": True})
    # property-specific extra phase (compile probes, threads, downstream crate …)
    if "extra" in P and not replay:
        extra = P["extra"](tier, seed, log)
        for v in extra.get("violations", []):
            kfhit = [txt for (rx, txt) in kf if rx.search(v.get("case", ""))]
            if kfhit:
                known_hits.append((v.get("case", ""), kfhit[0]))
            else:
                violations.append(v)

    if not lean["ok"]:
        # a proof obligation no longer checks: try to name a concrete failing input among the disagreements
        found = any(v.get("found_input") for v in violations)
        violations.insert(0, {"kind": "proof obligation(s) no longer check", "failures": lean["failures"],
                              "found_input": found})

    wall = time.time() - t0
    nviol = len(violations)
    ev = {
        "property_id": pid, "tier": tier, "seed": seed, "level": "proof",
        "coverage": {
            "obligations": lean["obligations"], "discharged": lean["discharged"],
            "checker_cmd": "cd /verif/lean && lake build Rrtk.Thm.%s && lake env lean work/audit_%s.lean  (#audit_ns: Lean.collectAxioms per theorem)%s"
                           % (pid, pid, "; lake env leanchecker Rrtk.Thm.%s" % pid if tier == "thorough" else ""),
            "trusted_base": P["trusted_base"],
            "theorems": lean["theorems"], "axioms_per_theorem": lean["axioms"],
            "table_snapshot_facts": lean.get("snapshots", {}),
            "partial": P.get("partial", ""),
            "evaluations": corr["evaluations"], "distinct_nontrivial": corr["distinct_nontrivial"],
            "rule": P["rule"], "samples": corr["samples"] or [{"case": lines[0] if lines else ""}],
            "correspondence": {"configs": corr["configs"], "disagreements": corr["disagreements"],
                               "hard": corr["hard"], "soft_within_tolerance": corr["soft"],
                               "accepted_property_conformant_alternatives": corr.get("accepted_alternatives", 0),
                               "tie_dependent_suffixes_skipped": corr.get("tie_dependent_suffixes_skipped", 0),
                               "kernel_anchored_known_answers_reproduced_by_impl": corr.get("kernel_anchored_known_answers", []),
                               "informational_model_disagreements": corr.get("informational_model_disagreements", 0),
                               "drift_outside_owned_observables": corr["drift"],
                               "owned_observables": sorted(P["mask"]), "tolerance": P.get("tol")},
            "exhaustively_enumerated_subspaces": P.get("exhaustive_parts", "none (structural classes are stratified, payloads random)"),
            "case_generation": ("thorough sizes: /repo's sources differ from the validated baseline (baseline_src.sha256)" if deep
                                else "%s sizes" % tier),
            "input_distribution": dict(sorted(corr["histogram"].items(), key=lambda kv: -kv[1])[:40]),
            "known_findings_hit": len(known_hits),
            "extra": (extra or {}).get("evidence"),
        },
        "assumptions": P["assumptions"],
        "wall_s": round(wall, 2), "violations": nviol,
    }
    with open(os.path.join(VERIF, "evidence", "%s.json" % pid), "w") as f:
        json.dump(ev, f, indent=1)

    seen_kf = set()
    for c, txt in known_hits:
        if txt not in seen_kf:
            seen_kf.add(txt)
            print("KNOWN-FINDING: property=%s %s" % (pid, txt))
    if nviol == 0:
        print("OK property=%s tier=%s obligations=%d/%d cases=%d distinct=%d wall=%.1fs" % (
            pid, tier, lean["discharged"], lean["obligations"], corr["evaluations"], corr["distinct_nontrivial"], wall))
        sys.exit(0)
    found = [v for v in violations if v.get("found_input") and "case" in v]
    # shrink: prefer the shortest failing case line
    found.sort(key=lambda v: len(v["case"]))
    # shrink the shortest model/implementation disagreement to a minimal operation sequence (same configuration)
    shrunk = None
    try:
        cand = next((v for v in found if v.get("kind") == "model/implementation disagreement"), None)
        if cand is not None and not replay:
            cfg = next(((f_, d_) for (f_, d_) in configs if (f_ or "default") == cand.get("config")), None)
            if cfg is not None:
                hb = build_harness(cfg[0], log)
                r = shrink_case(cand["case"], P, hb, driver, cfg[1]) if hb else None
                if r is not None and len(r[0]) < len(cand["case"]):
                    shrunk = {"case": r[0], "impl": r[1], "model": r[2], "config": cand.get("config"),
                              "from": cand["case"][:200], "note": "delta-debugged: every remaining token is needed for the disagreement"}
    except Exception as ex:          # shrinking is a convenience; never let it mask the verdict
        shrunk = {"error": repr(ex)[:200]}
    rp = os.path.join(VERIF, "replay", "%s_%s_%d.json" % (pid, tier, seed))
    with open(rp, "w") as f:
        json.dump({"property": pid, "tier": tier, "seed": seed,
                   "cases": ([shrunk["case"]] if shrunk and "case" in shrunk else []) + [v["case"] for v in (found or violations) if "case" in v][:20],
                   "shrunk": shrunk,
                   "violations": violations[:20],
                   "broken": [x for x in lean["failures"]],
                   "note": "replay with: ./check %s --replay %s" % (pid, rp)}, f, indent=1)
    tail = "" if found else " no-failing-input-found"
    print("VIOLATION property=%s replay=%s%s" % (pid, rp, tail))
    if shrunk and "case" in shrunk:
        print("  minimal failing case: %s   impl: %s   model: %s" % (shrunk["case"][:300], shrunk["impl"][:150], shrunk["model"][:150]))
    for v in violations[:3]:
        print("  " + json.dumps({k: v[k] for k in v if k != "log"})[:600])
    sys.exit(1)


if __name__ == "__main__":
    main()
