"""Property-specific extra phases that cannot go through the line protocol: compile probes (C16, lifetime half),
a downstream crate without features (C17, to_dyn!).  Scratch crates live in a fresh temporary directory outside /repo and
/verif and are deleted, with their build output, before the function returns."""
import os, re, shutil, subprocess, tempfile, time

REPO = os.environ.get("VERIF_REPO", "/repo")


def _run(cmd, cwd, timeout=1200):
    e = dict(os.environ)
    e["CARGO_NET_OFFLINE"] = "true"
    e.pop("RUSTFLAGS", None)
    p = subprocess.run(cmd, cwd=cwd, env=e, stdout=subprocess.PIPE, stderr=subprocess.STDOUT, text=True, timeout=timeout)
    return p.returncode, p.stdout


def _mk_crate(d, name, features, bins, default_features=True, lib=None):
    os.makedirs(os.path.join(d, "src", "bin"), exist_ok=True)
    if lib is not None:
        with open(os.path.join(d, "src", "lib.rs"), "w") as f:
            f.write(lib)
    feat = ", features = [%s]" % ", ".join('"%s"' % f for f in features) if features else ""
    df = "" if default_features else ", default-features = false"
    with open(os.path.join(d, "Cargo.toml"), "w") as f:
        f.write('[package]\nname = "%s"\nversion = "0.1.0"\nedition = "2021"\npublish = false\n[workspace]\n'
                '[dependencies]\nrrtk = { path = "%s"%s%s }\n[profile.dev]\ndebug = false\n' % (name, REPO, df, feat))
    try:
        shutil.copy(os.path.join(REPO, "Cargo.lock"), os.path.join(d, "Cargo.lock"))
    except OSError:
        pass
    for bn, src in bins.items():
        with open(os.path.join(d, "src", "bin", bn + ".rs"), "w") as f:
            f.write(src)


# ------------------------------------------------------------------------------------------- C16: lifetime probes
PRELUDE = """#![forbid(unsafe_code)]
#![allow(unused)]
use rrtk::*;
use rrtk::devices::*;
use rrtk::devices::wrappers::*;
struct S<T: Clone>(SettableData<T, ()>);
impl<T: Clone> Settable<T, ()> for S<T> {
    fn get_settable_data_ref(&self) -> &SettableData<T, ()> { &self.0 }
    fn get_settable_data_mut(&mut self) -> &mut SettableData<T, ()> { &mut self.0 }
    fn impl_set(&mut self, _: T) -> NothingOrError<()> { Ok(()) }
}
impl<T: Clone> Updatable<()> for S<T> { fn update(&mut self) -> NothingOrError<()> { Ok(()) } }
"""

def _probe(expr_make, expr_get):
    return PRELUDE + """
fn main() {
    let t = {
        let d = %s;
        %s
    }; // `d` is dropped here; a sound signature would not let `t` escape
    let b = t.borrow();
    std::hint::black_box(&*b);
}
""" % (expr_make, expr_get)

K = "PositionDerivativeDependentPIDKValues::new(PIDKValues::new(1.0,0.0,0.0),PIDKValues::new(1.0,0.0,0.0),PIDKValues::new(1.0,0.0,0.0))"
LIFETIME_PROBES = {
    "Invert::get_terminal_1": _probe("Invert::<()>::new()", "d.get_terminal_1()"),
    "Invert::get_terminal_2": _probe("Invert::<()>::new()", "d.get_terminal_2()"),
    "GearTrain::get_terminal_1": _probe("GearTrain::<()>::with_ratio_raw(2.0)", "d.get_terminal_1()"),
    "GearTrain::get_terminal_2": _probe("GearTrain::<()>::with_ratio_raw(2.0)", "d.get_terminal_2()"),
    "Axle::get_terminal": _probe("Axle::<2, ()>::new()", "d.get_terminal(0)"),
    "Differential::get_side_1": _probe("Differential::<()>::new()", "d.get_side_1()"),
    "Differential::get_side_2": _probe("Differential::<()>::new()", "d.get_side_2()"),
    "Differential::get_sum": _probe("Differential::<()>::new()", "d.get_sum()"),
    "ActuatorWrapper::get_terminal": _probe("ActuatorWrapper::<S<TerminalData>, ()>::new(S(SettableData::new()))", "d.get_terminal()"),
    "GetterStateDeviceWrapper::get_terminal": _probe("GetterStateDeviceWrapper::<NoneGetter, ()>::new(NoneGetter::new())", "d.get_terminal()"),
    "PIDWrapper::get_terminal": _probe("PIDWrapper::<S<f32>, ()>::new(S(SettableData::new()), Time(0), State::new_raw(0.0,0.0,0.0), Command::Position(0.0), %s)" % K, "d.get_terminal()"),
}
# terminals that are linked must be pinned for one common lifetime: connecting a longer-lived terminal to a shorter-lived one
# and using the former after the latter is gone must be rejected
LIFETIME_PROBES["connect (free terminals of different scopes)"] = PRELUDE + """
fn main() {
    let long = Terminal::<()>::new();
    {
        let short = Terminal::<()>::new();
        connect(&long, &short);
    } // `short` is dropped here while `long` still points at it
    let got: Output<State, ()> = long.borrow().get();
    std::hint::black_box(&got);
}
"""
LIFETIME_PROBES["connect (moved partner)"] = PRELUDE + """
fn main() {
    let a = Terminal::<()>::new();
    let b = Terminal::<()>::new();
    connect(&a, &b);
    let moved = b; // moving a linked terminal must be rejected (it is borrowed for as long as the link may be used)
    let got: Output<State, ()> = a.borrow().get();
    std::hint::black_box(&got);
    std::hint::black_box(&moved);
}
"""
# safe conversions that would manufacture a `Reference` from a raw pointer without `unsafe`: must not exist
SAFE_CONVERSION_PROBES = {
    "Reference from ReferenceUnsafe::Ptr (From/Into)": PRELUDE + "fn main() { let mut x = 5i32; let p = &mut x as *mut i32; let r: Reference<i32> = rrtk::reference::ReferenceUnsafe::Ptr(p).into(); std::hint::black_box(*r.borrow()); }\n",
    "Reference from ReferenceUnsafe::PtrRwLock (From/Into)": PRELUDE + "fn main() { let x = std::sync::RwLock::new(5i32); let r: Reference<i32> = Reference::from(rrtk::reference::ReferenceUnsafe::PtrRwLock(&x as *const _)); std::hint::black_box(*r.borrow()); }\n",
    "Reference from ReferenceUnsafe::PtrMutex (TryFrom)": PRELUDE + "fn main() { let x = std::sync::Mutex::new(5i32); let r: Reference<i32> = Reference::try_from(rrtk::reference::ReferenceUnsafe::PtrMutex(&x as *const _)).ok().unwrap(); std::hint::black_box(*r.borrow()); }\n",
    "ReferenceUnsafe::borrow in safe code": PRELUDE + "fn main() { let mut x = 5i32; let u = rrtk::reference::ReferenceUnsafe::Ptr(&mut x as *mut i32); let b = u.borrow(); std::hint::black_box(*b); }\n",
}
# controls: one program that must compile, one that must be rejected for a lifetime reason, one for the unsafe constructors
CONTROL_OK = PRELUDE + """
fn main() {
    let d = Invert::<()>::new();
    let t = d.get_terminal_1();
    let b = t.borrow();
    std::hint::black_box(&*b);
}
"""
CONTROL_REJECT = PRELUDE + """
fn main() {
    let t = {
        let c = core::cell::RefCell::new(5);
        &c
    };
    std::hint::black_box(&*t.borrow());
}
"""
CONTROL_RAW_VARIANT = PRELUDE + "fn main() { let mut x = 5i32; let u = rrtk::reference::ReferenceUnsafe::Ptr(&mut x as *mut i32); std::hint::black_box(&u); }\n"
UNSAFE_CTOR_PROBES = {
    "Reference::from_ptr": PRELUDE + "fn main() { let mut x = 5i32; let r = Reference::from_ptr(&mut x as *mut i32); std::hint::black_box(*r.borrow()); }\n",
    "Reference::from_ptr_rw_lock": PRELUDE + "fn main() { let x = std::sync::RwLock::new(5i32); let r = Reference::from_ptr_rw_lock(&x as *const _); std::hint::black_box(*r.borrow()); }\n",
    "Reference::from_ptr_mutex": PRELUDE + "fn main() { let x = std::sync::Mutex::new(5i32); let r = Reference::from_ptr_mutex(&x as *const _); std::hint::black_box(*r.borrow()); }\n",
    # an exported macro must not evaluate its caller's expression inside an `unsafe` block of its own: that would let a program without
    # any `unsafe` token call an unsafe constructor
    "unsafe fn inside a to_dyn! argument": PRELUDE + "trait Tr { fn g(&self) -> i32; }\nimpl Tr for i32 { fn g(&self) -> i32 { *self } }\n"
        "fn main() { let mut x = 5i32; let r = rrtk::to_dyn!(Tr, Reference::from_ptr(&mut x as *mut i32)); std::hint::black_box(r.borrow().g()); }\n",
}
LIFETIME_ERR = re.compile(r"E0597|E0505|E0515|E0716|E0521|does not live long enough|borrowed value")


def c16_extra(tier, seed, log):
    d = tempfile.mkdtemp(prefix="rrtk_probe_c16_")
    ev = {"probes": {}, "kind": "compile probes (exploration, not proof): safe programs that let a terminal reference outlive its device"}
    viol = []
    try:
        names = {}
        bins = {"control_ok": CONTROL_OK, "control_reject": CONTROL_REJECT, "control_raw": CONTROL_RAW_VARIANT}
        for k, (n, src) in enumerate(list(LIFETIME_PROBES.items()) + list(UNSAFE_CTOR_PROBES.items()) + list(SAFE_CONVERSION_PROBES.items())):
            bn = "p%02d" % k
            names[bn] = n
            bins[bn] = src
        _mk_crate(d, "probe_c16", ["std", "devices"], bins)
        rc, out = _run(["cargo", "build", "--offline", "--quiet", "--bin", "control_ok"], d)
        if rc != 0:
            ev["inconclusive"] = "control program does not compile: " + out[-600:]
            return {"violations": [], "evidence": ev}
        rc, out = _run(["cargo", "build", "--offline", "--quiet", "--bin", "control_raw"], d)
        ev["control_raw_variant_constructible"] = (rc == 0)
        rc, out = _run(["cargo", "build", "--offline", "--quiet", "--bin", "control_reject"], d)
        if rc == 0 or not LIFETIME_ERR.search(out):
            ev["inconclusive"] = "negative control was not rejected for a lifetime reason"
            return {"violations": [], "evidence": ev}
        for bn, n in names.items():
            rc, out = _run(["cargo", "build", "--offline", "--quiet", "--bin", bn], d)
            if n in SAFE_CONVERSION_PROBES:
                right = rc != 0 and re.search(r"E0277|E0133|E0308|E0599", out) and "E0433" not in out and "E0432" not in out
                ev["probes"][n] = ("rejected (no such safe conversion / unsafe fn)" if right else
                                   "ACCEPTED in safe code" if rc == 0 else "inconclusive: rejected for an unrelated reason: " + out[-300:])
                if rc == 0:
                    viol.append({"kind": "a Reference over a raw pointer can be manufactured / dereferenced without `unsafe`", "case": "probe:" + n,
                                 "found_input": True})
            elif n in UNSAFE_CTOR_PROBES:
                ok = rc != 0 and "E0133" in out
                ev["probes"][n] = "rejected (E0133: unsafe fn)" if ok else ("ACCEPTED in safe code" if rc == 0 else "rejected for another reason")
                if rc == 0:
                    viol.append({"kind": "a raw-pointer Reference constructor is callable from safe code", "case": "probe:" + n,
                                 "found_input": True})
            else:
                if rc == 0:
                    ev["probes"][n] = "ACCEPTED: reference outlives its device in safe code"
                    viol.append({"kind": "safe program obtains a terminal reference that outlives its device (dangling &RefCell<Terminal>)",
                                 "case": "probe:" + n, "found_input": True})
                elif LIFETIME_ERR.search(out):
                    ev["probes"][n] = "rejected by the borrow checker"
                else:
                    ev["probes"][n] = "inconclusive: compile error unrelated to lifetimes: " + out[-300:]
    finally:
        shutil.rmtree(d, ignore_errors=True)
    if tier == "thorough":
        mv, mev = _c16_miri(seed)
        viol += mv
        ev["miri"] = mev
    return {"violations": viol, "evidence": ev}


def _c16_miri(seed):
    """thorough tier: the C16 case file (every 3rd line) through the harness under Miri (nightly, offline), built WITHOUT the poisoning
    hook, so a read of an unwritten MaybeUninit slot or an out-of-bounds access is reported as undefined behaviour by the interpreter
    itself.  Tree Borrows is selected because the crate's terminal accessors hand out shared references next to `&mut self` updates
    (finding F4), which Stacked Borrows rejects on every device line of the unchanged crate.  Dynamic analysis, not proof."""
    import random as _r, cases as _c
    verif = os.path.dirname(os.path.dirname(os.path.abspath(__file__)))
    harness = os.path.join(verif, "harness")
    lines = _c.gen_C16(_r.Random(seed), "quick")[::3]
    # finding F4 again, in its aliasing form: a terminal accessor returns `&'a RefCell<Terminal>` made from `&self` by a raw-pointer cast, so
    # safe code keeps that shared reference while it calls `update(&mut self)`.  Tree Borrows tolerates ONE update after the accessors
    # (the `&mut` is still "reserved"); update -> any terminal access -> update is rejected ("reborrow … is forbidden") on the unchanged
    # crate for every device — the normal control loop.  That is F4 (known finding), not something this interpreter run is for: lines
    # with a second update are left out so that the run reaches the lines it IS for (scratch slots, Reference liveness).
    def _second_update(l):
        t = l.split(" ")
        return t[0] == "dv" and sum(1 for x in t if x.startswith(("u:", "ut:", "tu:"))) >= 2
    lines = [l for l in lines if not _second_update(l)]
    e = dict(os.environ)
    e["CARGO_NET_OFFLINE"] = "true"
    e.pop("RUSTFLAGS", None)
    e["MIRIFLAGS"] = "-Zmiri-disable-isolation -Zmiri-tree-borrows -Zmiri-ignore-leaks"
    t0 = time.time()
    try:
        p = subprocess.run(["cargo", "+nightly", "miri", "run", "--offline", "--quiet", "--target-dir", os.path.join(harness, "target", "miri")],
                           cwd=harness, env=e, input="\n".join(lines) + "\n", stdout=subprocess.PIPE, stderr=subprocess.PIPE, text=True,
                           timeout=3000)
    except Exception as ex:
        return [], {"status": "not run: " + repr(ex)[:200]}
    outl = [l for l in p.stdout.split("\n") if l != ""]
    ev = {"lines": len(lines), "answered": len(outl), "wall_s": round(time.time() - t0, 1), "flags": e["MIRIFLAGS"]}
    if "Undefined Behavior" in p.stderr:
        k = len(outl)
        msg = next((l for l in p.stderr.splitlines() if "Undefined Behavior" in l), "")[:300]
        ev["status"] = "UNDEFINED BEHAVIOUR: " + msg
        return [{"kind": "Miri reports undefined behaviour in the crate on a C16 case: " + msg, "case": lines[k] if k < len(lines) else "?",
                 "found_input": True}], ev
    if p.returncode != 0 and len(outl) < len(lines):
        ev["status"] = "inconclusive: miri could not be run (" + p.stderr[-300:] + ")"
        return [], ev
    ev["status"] = "no undefined behaviour reported"
    return [], ev


# ------------------------------------------------------------------------------------------- C17: to_dyn! in a downstream crate
DOWNSTREAM = """// a downstream crate; which cargo features it declares itself is the configuration under test
use rrtk::*;
trait Bar { fn v(&self) -> i32; fn set(&mut self, x: i32); }
struct Foo(i32);
impl Bar for Foo { fn v(&self) -> i32 { self.0 } fn set(&mut self, x: i32) { self.0 = x; } }
fn main() {
    let which = std::env::args().nth(1).unwrap_or_default();
    match which.as_str() {
        "rc" => {
            let r = rc_ref_cell_reference(Foo(7));
            let d = to_dyn!(Bar, r.clone());
            r.borrow_mut().0 = 9;
            let x = d.borrow().v();
            d.borrow_mut().set(x + 1);
            println!("RESULT {}", r.borrow().0);
        }
        "prw" => {
            let p = static_rw_lock_reference!(Foo, Foo(3));
            let d = to_dyn!(Bar, p.clone());
            d.borrow_mut().set(6);
            println!("RESULT {}", p.borrow().0);
        }
        "ptr" => {
            let q = static_reference!(Foo, Foo(4));
            let d = to_dyn!(Bar, q.clone());
            d.borrow_mut().set(8);
            println!("RESULT {}", q.borrow().0);
        }
        _ => {}
    }
}
"""
# a calling crate whose own root is #![no_std] (a driver-style library with no features of its own) while rrtk is built with
# std (its default, or through feature unification): every path in the macro's expansion must resolve through $crate
NOSTD_LIB = """#![no_std]
use rrtk::Reference;
pub trait Bar { fn v(&self) -> i32; fn set(&mut self, x: i32); }
pub struct Foo(pub i32);
impl Bar for Foo { fn v(&self) -> i32 { self.0 } fn set(&mut self, x: i32) { self.0 = x; } }
/// whatever variant the caller hands in
pub fn erase(r: Reference<Foo>) -> Reference<dyn Bar> { rrtk::to_dyn!(Bar, r) }
"""
NOSTD_BIN = """use probe_c17::{erase, Bar, Foo};
use rrtk::*;
fn run(original: Reference<Foo>, w: i32) {
    let kept = original.clone();
    let d = erase(original);
    d.borrow_mut().set(w);
    kept.borrow_mut().0 += 1;
    let d2 = d.clone();
    drop(d);
    println!("RESULT {}", d2.borrow().v());
}
fn main() {
    let which = std::env::args().nth(1).unwrap_or_default();
    match which.as_str() {
        "rc" => run(rc_ref_cell_reference(Foo(7)), 9),
        "prw" => run(static_rw_lock_reference!(Foo, Foo(3)), 5),
        "ptr" => run(static_reference!(Foo, Foo(4)), 7),
        _ => {}
    }
}
"""
EXPECT = {"rc": "RESULT 10", "prw": "RESULT 6", "ptr": "RESULT 8"}
VARIANT = {"rc": "RcRefCell", "prw": "PtrRwLock", "ptr": "Ptr"}


def c17_extra(tier, seed, log):
    ev = {"downstream": {}, "kind": "to_dyn! expanded in downstream crates that declare different features of their own"}
    viol = []
    configs = [("none", []), ("nostd_lib", [])] if tier == "quick" else \
              [("none", []), ("nostd_lib", []), ("alloc", ["alloc"]), ("alloc_std", ["alloc", "std"])]
    for cname, own in configs:
        d = tempfile.mkdtemp(prefix="rrtk_probe_c17_")
        try:
            if cname == "nostd_lib":
                _mk_crate(d, "probe_c17", [], {"down": NOSTD_BIN}, lib=NOSTD_LIB)
            else:
                _mk_crate(d, "probe_c17", [], {"down": DOWNSTREAM})
            if own:
                with open(os.path.join(d, "Cargo.toml"), "a") as f:
                    f.write("[features]\n" + "".join('%s = []\n' % x for x in own) + 'default = [%s]\n' % ", ".join('"%s"' % x for x in own))
            rc, out = _run(["cargo", "build", "--offline", "--quiet", "--bin", "down"], d)
            if rc != 0:
                ev["downstream"][cname] = "does not compile: " + out[-500:]
                viol.append({"kind": "to_dyn! does not compile in a downstream crate with own features %s" % own,
                             "case": "probe:to_dyn caller=%s" % cname, "found_input": True})
                continue
            for which in ("rc", "prw", "ptr"):
                rc, out = _run([os.path.join(d, "target", "debug", "down"), which], d)
                ok = rc == 0 and EXPECT[which] in out
                ev["downstream"]["%s/%s" % (cname, which)] = "ok" if ok else ("panicked/failed: " + out[-200:])
                if not ok:
                    viol.append({"kind": "to_dyn! of a %s Reference fails in a calling crate with own features %s (rrtk built with std): %s"
                                         % (VARIANT[which], own, out.strip().splitlines()[0][:120] if out.strip() else "no output"),
                                 "case": "probe:to_dyn caller=%s variant=%s" % (cname, VARIANT[which]), "found_input": True})
        finally:
            shutil.rmtree(d, ignore_errors=True)
    return {"violations": viol, "evidence": ev}
