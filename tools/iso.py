#!/usr/bin/env python3
"""Evaluate a seeded defect in isolation, without touching /repo or /verif.

  iso.py <patch.diff> [<ID> ...] [--tier quick|thorough] [--keep]
      creates /tmp/iso_<pid>/repo (a git worktree of /repo's HEAD with the patch applied) and /tmp/iso_<pid>/verif (a copy of
      /verif's working tree incl. build products, harness retargeted at the scratch repo), runs ./check <ID> there for every
      listed property (default: all claimed), prints one line per check and a DETECTED-BY summary, and removes the scratch
      directory and the worktree again.  `--patch none` (literally `none` as the patch) evaluates the unchanged tree.
Several instances can run in parallel; nothing here is registered in MANIFEST.json.
"""
import sys, os, subprocess, json, shutil, re

VERIF = os.path.dirname(os.path.dirname(os.path.abspath(__file__)))
REPO = "/repo"


def sh(cmd, cwd=None, env=None, timeout=7200):
    e = dict(os.environ); e["CARGO_NET_OFFLINE"] = "true"
    if env: e.update(env)
    p = subprocess.run(cmd, cwd=cwd, env=e, stdout=subprocess.PIPE, stderr=subprocess.STDOUT, text=True, timeout=timeout,
                       shell=isinstance(cmd, str))
    return p.returncode, p.stdout


def main():
    a = sys.argv[1:]
    keep = "--keep" in a
    tier = "quick"
    if "--tier" in a:
        tier = a[a.index("--tier") + 1]
        del a[a.index("--tier"):a.index("--tier") + 2]
    a = [x for x in a if x != "--keep"]
    patch, ids = a[0], a[1:]
    if not ids:
        m = json.load(open(os.path.join(VERIF, "MANIFEST.json")))
        ids = [c["property_id"] for c in m["checks"]]
    root = "/tmp/iso_%d" % os.getpid()
    repo, verif = os.path.join(root, "repo"), os.path.join(root, "verif")
    os.makedirs(root)
    results = {}
    try:
        rc, out = sh(["git", "-C", REPO, "worktree", "add", "-q", "--detach", repo, "HEAD"])
        assert rc == 0, out
        if patch != "none":
            rc, out = sh(["git", "apply", os.path.abspath(patch)], cwd=repo)
            assert rc == 0, "patch does not apply: " + out
        rc, out = sh(["rsync", "-a", "--exclude", ".git", "--exclude", "replay", "--exclude", "evidence", "--exclude", "seeded",
                      "--exclude", "work/iso", "--exclude", "work/mutants", VERIF + "/", verif + "/"])
        assert rc in (0, 24), out          # 24: a file vanished while copying (another evaluation's output being renamed)
        ct = os.path.join(verif, "harness", "Cargo.toml")
        s = open(ct).read().replace('path = "/repo"', 'path = "%s"' % repo)
        open(ct, "w").write(s)
        for pid in ids:
            rc, out = sh([os.path.join(verif, "check"), pid, "--tier", tier], cwd=verif, env={"VERIF_REPO": repo})
            lines = [l for l in out.splitlines() if not l.startswith("WARNING conda")]
            first = next((l for l in lines if l.startswith(("OK", "VIOLATION"))), lines[-1] if lines else "")
            detail = next((l for l in lines if l.startswith("  {")), "")
            results[pid] = {"rc": rc, "line": first[:200], "detail": detail[:400]}
            print("%s rc=%d %s" % (pid, rc, first[:160].replace(root, "<iso>")), flush=True)
            if rc != 0 and detail:
                print("      " + detail[:400], flush=True)
            if rc != 0 and keep:
                m = re.search(r"replay=(\S+)", first)
                if m and os.path.exists(m.group(1)):
                    os.makedirs(os.path.join(VERIF, "work", "iso_replays"), exist_ok=True)
                    shutil.copy(m.group(1), os.path.join(VERIF, "work", "iso_replays",
                                                         os.path.basename(os.path.dirname(os.path.abspath(patch))) + "_" + os.path.basename(m.group(1))))
    finally:
        sh(["git", "-C", REPO, "worktree", "remove", "--force", repo])
        shutil.rmtree(root, ignore_errors=True)
        sh(["git", "-C", REPO, "worktree", "prune"])
    print("DETECTED-BY:", [p for p, r in results.items() if r["rc"] != 0])


if __name__ == "__main__":
    main()
