"""Kernel-anchored known answers: case lines whose expected output was COMPUTED BY THE LEAN KERNEL from the model instantiated at the
kernel-transparent binary32 scalar `SF` (`decide +kernel` theorems in lean/Rrtk/Thm/Ext/*.lean, namespace Binary32Examples).  The
check feeds these lines to the real implementation: agreement ties  kernel -> rne32 -> model -> Rust code  on a whole computation,
not only operation by operation (group sf).  `expect` maps an output-token index to the required token."""
from wire import f2h

KATS = {
    # Rrtk.Thm.C06.Binary32Examples.exTimes_eq : the test-suite profile has t2 = 30.000001024 s in binary32 (30 s in exact arithmetic)
    # (filed under C07: the phase durations are C07's numbers; C06 owns the agreement of the accessors, whatever the durations are)
    "C07": [dict(theorem="Rrtk.Thm.C06.Binary32Examples.exTimes_eq",
                 case="mp 00000000/00000000/00000000 40400000/00000000/00000000 Q:%s:1,-1 Q:%s:1,-2 0" % (f2h(0.1), f2h(0.01)),
                 expect={0: "T:10000000000", 1: "T:30000001024", 2: "T:40000000000"})],
    # Rrtk.Thm.C04.Binary32Examples.pidVal_eq : setpoint 1e9, gains 1.5, fl(1/3), 2^-149; history with an absent and an errored input
    "C04": [dict(theorem="Rrtk.Thm.C04.Binary32Examples.pidVal_eq",
                 case="ss pid %s %s 3eaaaaab 00000001 S@0@3f800000 N S@2000000000@4b800000 E3 S@3000000000@40400000 S@3500000000@3eaaaaab S@3700000000@3fc00000"
                      % (f2h(1e9), f2h(1.5)),
                 expect={6: "ok/S@3700000000@" + f2h(1733333376.0)})],
    # Rrtk.Thm.C09.Binary32Examples : linked terminals holding 2^24 @5 and 1 @7 read the ROUNDED mean 8388608 (exact: 8388608.5) @7
    "C09": [dict(theorem="Rrtk.Thm.C09.Binary32Examples (getState w 0 / w 1)",
                 case="dv free:2 -- ss:0:5@4b800000/00000000/00000000 ss:1:7@3f800000/00000000/00000000 c:0:1 r:0 r:1",
                 expect_prefix={3: "S@7@4b000000/00000000/00000000;", 4: "S@7@4b000000/00000000/00000000;"})],
    # Rrtk.Thm.C12.Binary32Examples.lastVal_eq : moving average, window 4 ns, samples fl(1/3)@5, absent, 2^24@7, 1.5@8 -> 8388608 @8
    "C12": [dict(theorem="Rrtk.Thm.C12.Binary32Examples.lastVal_eq",
                 case="ss ma f 4 S@5@3eaaaaab N S@7@4b800000 S@8@3fc00000",
                 expect={3: "ok/S@8@4b000000"})],
}


def check(pid, lines, impl):
    """returns [(case, message)] for every known answer of `pid` that the implementation does not reproduce"""
    bad = []
    for k in KATS.get(pid, []):
        try:
            i = lines.index(k["case"])
        except ValueError:
            continue
        toks = impl[i].split(" ")
        for j, want in k.get("expect", {}).items():
            if j >= len(toks) or toks[j] != want:
                bad.append((k["case"], "kernel-anchored known answer (%s): output token %d is %s, the kernel computed %s"
                            % (k["theorem"], j, toks[j] if j < len(toks) else "<missing>", want)))
        for j, want in k.get("expect_prefix", {}).items():
            if j >= len(toks) or not toks[j].startswith(want):
                bad.append((k["case"], "kernel-anchored known answer (%s): output token %d is %s, the kernel computed %s…"
                            % (k["theorem"], j, toks[j] if j < len(toks) else "<missing>", want)))
    return bad
