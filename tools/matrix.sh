#!/bin/bash
# Final matrix: every claimed check against every seeded defect and every harmless change, each in an isolated scratch copy
# (tools/iso.py), ${P:-5} at a time; then rewrite the meta/result files and the tables of DESIGN.md §11.
cd /verif
mkdir -p work/iso
(ls -d seeded/*/ | sed 's#/$##' | while read d; do [ -f $d/patch.diff ] && echo "$d work/iso/$(basename $d).run"; done
 ls -d benign/*/ | sed 's#/$##' | while read d; do [ -f $d/patch.diff ] && echo "$d work/iso/ben_$(basename $d).run"; done) \
 | xargs -P ${P:-5} -L 1 sh -c 'nice -n 5 python3 tools/iso.py $0/patch.diff > $1 2>&1'
python3 tools/seeded_collect.py --design
echo matrix done
