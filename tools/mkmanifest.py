#!/usr/bin/env python3
"""Write /verif/MANIFEST.json from the registry in props.py (claimed checks) + not_applicable for the rest."""
import json, os, sys
HERE = os.path.dirname(os.path.abspath(__file__)); sys.path.insert(0, HERE)
import props
VERIF = os.path.dirname(HERE)
ids = [json.loads(l)["id"] for l in open(os.path.join(VERIF, "properties.jsonl"))]
checks = []
for pid in ids:
    if pid not in props.PROPS:
        continue
    P = props.PROPS[pid]
    checks.append({
        "property_id": pid,
        "quick_cmd": "./check %s --tier quick" % pid,
        "thorough_cmd": "./check %s --tier thorough" % pid,
        "evidence_file": "/verif/evidence/%s.json" % pid,
        "replay_cmd_template": "./check %s --replay {path}" % pid,
        "engine": "lean4-model+correspondence",
        "level_claimed": {"category": "proof", "text": P.get("level_text", "Machine-checked Lean 4 theorems about a model of the anchored code, for all inputs/histories the property quantifies over; the model is tied to /repo on every run by a differential correspondence check (and regenerated tables where the source is a table)."), "design_ref": "DESIGN.md §5 " + pid},
        "level_note": P.get("level_note", "Trusted: Lean kernel; the hand-written model; the correspondence harness/driver/generators (differential testing); IEEE-754 behaviour of Lean Float32 and the CPU. " + P.get("partial", "")),
        "technique": P.get("technique", "Lean 4 proof over a hand-written model + differential correspondence with the Rust code"),
    })
na = [{"property_id": p, "reason": "pending: check under construction in this session (see DESIGN.md §5)"} for p in ids if p not in props.PROPS]
m = {"version": 1, "setup_cmd": "./setup.sh",
     "hooks": {"guard": "rrtk_verif", "enable": "RUSTFLAGS='--cfg rrtk_verif' (set by ./check when it builds the harness)",
               "baseline_off_cmd": "cd /repo && cargo test --workspace --no-fail-fast --offline",
               "source_commits": props.HOOK_COMMITS, "add_only": True},
     "engines": [{"name": "lean4-model+correspondence", "path": "/verif/lean, /verif/harness, /verif/tools",
                  "serves_properties": [c["property_id"] for c in checks],
                  "kind_free_text": "Lean 4 theorems over a hand-written model (lean/Rrtk), audited axioms; model tied to the code by a Rust harness vs compiled Lean driver on seeded, largely exhaustive case files (bit-exact at Float32, several cargo feature/profile configurations), tables regenerated from the source, tie-break variants generated textually from the model, kernel-anchored known answers"}],
     "checks": checks, "not_applicable": na,
     "notes": "See DESIGN.md (§10 as built, §11 seeded defects and harmless changes). Known findings: /verif/known_findings.txt. Seeded defects: /verif/seeded/ (4 rounds, "
              "written by independent sub-agents); harmless changes used to hunt false alarms: /verif/benign/. Every check runs the property in the debug profile, "
              "the release profile and (where units matter) with dimension checking compiled out; when /repo's sources differ from baseline_src.sha256 the quick tier "
              "generates cases at thorough sizes. binary32 rounding is modelled kernel-transparently (lean/Rrtk/SoftFloat.lean) and compared bit-for-bit with the hardware."}
json.dump(m, open(os.path.join(VERIF, "MANIFEST.json"), "w"), indent=1)
print("claimed:", [c["property_id"] for c in checks], "pending:", [x["property_id"] for x in na])
