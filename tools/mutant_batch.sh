#!/bin/bash
# usage: mutant_batch.sh <ID>...   — confirm and evaluate the seeded defects found in /tmp/mut_<ID>/_out/m{1,2}_*
cd /verif
mkdir -p work/mutants
for id in "$@"; do
  for k in 1 2; do
    d=/tmp/mut_$id/_out
    [ -f $d/m${k}_patch.diff ] || continue
    name=${id}_m$k
    feats=""
    grep -qi "features devices\|--features devices" $d/m${k}_demo.rs $d/m${k}_meta.txt 2>/dev/null && feats="--features devices"
    [ "$name" = "C19_m1" ] && feats="--demo-args --no-default-features\ --features\ std"
    [ "$name" = "C19_m2" ] && feats="--demo-args --no-default-features\ --features\ alloc,libm"
    echo "=== $name ($feats)"
    eval python3 tools/mutants.py confirm $d/m${k}_patch.diff $d/m${k}_demo.rs $feats > work/mutants/$name.confirm 2>&1
    tail -1 work/mutants/$name.confirm
    python3 tools/mutants.py run $d/m${k}_patch.diff > work/mutants/$name.run 2>&1
    grep "DETECTED-BY" work/mutants/$name.run
  done
done
