#!/bin/bash
# usage: [ROUND=2] mutant_batch.sh <ID>...   — confirm and evaluate the seeded defects found in
#   round 1: /tmp/mut_<ID>/_out/m{1,2,3}_*    (names <ID>_m<k>)
#   round 2: /tmp/mut2_<ID>/_out/m{1,2,3}_*   (names <ID>_r2m<k>)
# MODE=confirm|run|both (default both).  CHECKS=target runs only the defect's own property check.
# CHECKS="C01 C19" restricts the checks that are run against each defect (default: all claimed).
cd /verif
mkdir -p work/mutants
R=${ROUND:-1}
for id in "$@"; do
  for k in 1 2 3; do
    if [ "$R" = 2 ]; then d=/tmp/mut2_$id/_out; name=${id}_r2m$k; else d=/tmp/mut_$id/_out; name=${id}_m$k; fi
    [ -f $d/m${k}_patch.diff ] || continue
    feats=""
    grep -qi "features devices\|--features devices" $d/m${k}_demo.rs $d/m${k}_meta.txt 2>/dev/null && feats="--features devices"
    # demonstrations that need a non-default configuration
    case $name in
      C19_m1|C14_r2m1|C18_r2m2|C19_r2m1) feats="--demo-args --no-default-features\ --features\ std" ;;
      C19_m2) feats="--demo-args --no-default-features\ --features\ alloc,libm" ;;
      C19_r2m2) feats="--demo-args --no-default-features\ --features\ alloc,libm,dim_check_release" ;;
      C01_r2m3) feats="--demo-args --release\ --features\ dim_check_release" ;;
    esac
    [ -d $d/m${k}_downstream ] && feats="$feats --aux-dir $d/m${k}_downstream"
    envp=""
    [ "$name" = "C16_r2m1" ] && envp='RUSTFLAGS=--cfg=rrtk_verif'
    echo "=== $name ($feats $envp)"
    if [ "${MODE:-both}" != run ]; then
      eval env $envp python3 tools/mutants.py confirm $d/m${k}_patch.diff $d/m${k}_demo.rs $feats > work/mutants/$name.confirm 2>&1
      tail -1 work/mutants/$name.confirm
    fi
    if [ "${MODE:-both}" != confirm ]; then
      ch="$CHECKS"; [ "$CHECKS" = target ] && ch=$id
      python3 tools/mutants.py run $d/m${k}_patch.diff $ch > work/mutants/$name.run 2>&1
      grep "DETECTED-BY" work/mutants/$name.run
    fi
  done
done
