#!/usr/bin/env python3
"""Collect confirmed seeded defects into /verif/seeded/<name>/ (patch.diff, demo, meta.json) and print the DESIGN table."""
import os, re, json, shutil, sys, glob
VERIF = os.path.dirname(os.path.dirname(os.path.abspath(__file__)))
rows = []
for conf in sorted(glob.glob(os.path.join(VERIF, "work", "mutants", "*.confirm"))):
    name = os.path.basename(conf)[:-8]
    pid, k = name.split("_m")
    src = "/tmp/mut_%s/_out" % pid
    txt = open(conf).read()
    confirmed = txt.strip().endswith("CONFIRMED") and not txt.strip().endswith("NOT-CONFIRMED")
    try:
        cj = json.loads(txt[txt.index("{"):txt.rindex("}") + 1])
    except Exception:
        cj = {}
    runf = conf[:-8] + ".run"
    detected, lines = [], {}
    if os.path.exists(runf):
        for l in open(runf):
            m = re.match(r"(C\d+) rc=(\d+) (.*)", l)
            if m:
                lines[m.group(1)] = m.group(3).strip()
                if m.group(2) != "0":
                    detected.append(m.group(1))
    d = os.path.join(VERIF, "seeded", name)
    meta_txt = ""
    if os.path.isdir(src):
        os.makedirs(d, exist_ok=True)
        for a, b in (("m%s_patch.diff" % k, "patch.diff"), ("m%s_demo.rs" % k, "demo.rs"), ("m%s_meta.txt" % k, "agent_notes.txt")):
            if os.path.exists(os.path.join(src, a)):
                shutil.copy(os.path.join(src, a), os.path.join(d, b))
        dd = os.path.join(src, "m%s_downstream" % k)
        if os.path.isdir(dd):
            shutil.copytree(dd, os.path.join(d, "downstream"), dirs_exist_ok=True, ignore=shutil.ignore_patterns("target"))
        if os.path.exists(os.path.join(d, "agent_notes.txt")):
            meta_txt = open(os.path.join(d, "agent_notes.txt")).read()
    if not os.path.isdir(d):
        continue
    first = " ".join(meta_txt.split())[:500]
    meta = {"name": name, "breaks_property": pid, "confirmed_by_me": confirmed, "confirmation": cj,
            "what_it_needs_to_manifest": first,
            "ran": ["python3 tools/mutants.py confirm patch.diff demo.rs  (scratch worktree: demo passes without / fails with the patch; "
                    "138-test baseline + devices tests pass with the patch; builds in 3 configs)",
                    "python3 tools/mutants.py run patch.diff  (patch applied to /repo, every claimed ./check <ID> --tier quick, patch undone)"],
            "detected_by": detected, "target_detected": pid in detected,
            "other_checks_raising": [x for x in detected if x != pid]}
    json.dump(meta, open(os.path.join(d, "meta.json"), "w"), indent=1)
    rows.append((name, pid, confirmed, detected))
print("| seeded defect | target | confirmed | caught by target check | other checks that (rightly) fire |")
print("|---|---|---|---|---|")
for name, pid, c, det in rows:
    print("| %s | %s | %s | %s | %s |" % (name, pid, "yes" if c else "NO", "yes" if pid in det else "**no**", ", ".join(x for x in det if x != pid) or "—"))
