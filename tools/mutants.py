#!/usr/bin/env python3
"""Evaluate seeded defects.

  mutants.py confirm <patch.diff> <demo.rs> [--features devices | --demo-args "<cargo test args>"] [--aux-dir <dir>]
      in a scratch worktree of /repo (under /tmp, removed afterwards): baseline suite passes with the patch, the
      demonstration passes without the patch and fails with it.
  mutants.py run <patch.diff> [<ID> ...]
      apply the patch to /repo, run ./check <ID> (default: all claimed checks), undo the patch; prints one line per check.
Never commits anything to /repo.
"""
import sys, os, subprocess, json, shutil, re, tempfile

VERIF = os.path.dirname(os.path.dirname(os.path.abspath(__file__)))
REPO = "/repo"


def sh(cmd, cwd=None, timeout=3600):
    e = dict(os.environ); e["CARGO_NET_OFFLINE"] = "true"
    p = subprocess.run(cmd, cwd=cwd, env=e, stdout=subprocess.PIPE, stderr=subprocess.STDOUT, text=True, timeout=timeout, shell=isinstance(cmd, str))
    return p.returncode, p.stdout


def confirm(patch, demo, features, demo_args=None, aux_dir=None):
    wt = tempfile.mkdtemp(prefix="rrtk_confirm_")
    os.rmdir(wt)
    res = {}
    try:
        rc, out = sh(["git", "-C", REPO, "worktree", "add", "-q", wt, "HEAD"])
        assert rc == 0, out
        feat = ["--features", features] if features else []
        if demo_args:       # e.g. a non-default configuration: --no-default-features --features std
            feat = demo_args.split()
        shutil.copy(demo, os.path.join(wt, "tests", "zz_seeded_demo.rs"))
        if aux_dir:         # e.g. a downstream crate the demonstration builds; looked up under tests/<name>
            shutil.copytree(aux_dir, os.path.join(wt, "tests", os.path.basename(aux_dir.rstrip("/"))),
                            ignore=shutil.ignore_patterns("target"))
        rc, out = sh(["cargo", "test", "--offline", "--test", "zz_seeded_demo"] + feat, cwd=wt)
        res["demo_without_patch"] = "pass" if rc == 0 else "FAIL"
        rc, out = sh(["git", "apply", os.path.abspath(patch)], cwd=wt)
        assert rc == 0, "patch does not apply: " + out
        rc, out = sh(["cargo", "test", "--offline", "--test", "zz_seeded_demo"] + feat, cwd=wt)
        res["demo_with_patch"] = "pass" if rc == 0 else "FAIL"
        res["demo_failure"] = "\n".join(l for l in out.splitlines() if "panicked" in l or "assert" in l)[:600]
        os.remove(os.path.join(wt, "tests", "zz_seeded_demo.rs"))
        if aux_dir:
            shutil.rmtree(os.path.join(wt, "tests", os.path.basename(aux_dir.rstrip("/"))), ignore_errors=True)
        rc, out = sh(["cargo", "test", "--workspace", "--no-fail-fast", "--offline"], cwd=wt)
        tot = sum(int(m.group(1)) for m in re.finditer(r"test result: ok\. (\d+) passed", out))
        res["baseline_with_patch"] = "pass (%d incl. doctests)" % tot if rc == 0 else "FAIL"
        rc, out = sh(["cargo", "test", "--offline", "--features", "devices"], cwd=wt)
        res["devices_tests_with_patch"] = "pass" if rc == 0 else "FAIL"
        for cfg in (["--features", "devices"], ["--no-default-features", "--features", "alloc,libm,devices"]):
            rc, out = sh(["cargo", "build", "--offline"] + cfg, cwd=wt)
            res["build " + " ".join(cfg)] = "ok" if rc == 0 else "FAIL"
    finally:
        sh(["git", "-C", REPO, "worktree", "remove", "--force", wt])
        shutil.rmtree(wt, ignore_errors=True)
    print(json.dumps(res, indent=1))
    ok = (res.get("demo_without_patch") == "pass" and res.get("demo_with_patch") == "FAIL"
          and str(res.get("baseline_with_patch", "")).startswith("pass") and res.get("devices_tests_with_patch") == "pass")
    print("CONFIRMED" if ok else "NOT-CONFIRMED")
    return ok


def run(patch, ids):
    rc, out = sh(["git", "-C", REPO, "status", "--porcelain"])
    assert out.strip() == "", "/repo is not clean: " + out
    if not ids:
        m = json.load(open(os.path.join(VERIF, "MANIFEST.json")))
        ids = [c["property_id"] for c in m["checks"]]
    rc, out = sh(["git", "-C", REPO, "apply", os.path.abspath(patch)])
    assert rc == 0, "patch does not apply: " + out
    results = {}
    try:
        for pid in ids:
            rc, out = sh([os.path.join(VERIF, "check"), pid, "--tier", "quick"], cwd=VERIF)
            lines = [l for l in out.splitlines() if not l.startswith("WARNING conda")]
            first = next((l for l in lines if l.startswith(("OK", "VIOLATION"))), lines[-1] if lines else "")
            detail = next((l for l in lines if l.startswith("  {")), "")
            results[pid] = {"rc": rc, "line": first[:200], "detail": detail[:400]}
            print("%s rc=%d %s" % (pid, rc, first[:160]), flush=True)
            if rc != 0 and detail:
                print("      " + detail[:300], flush=True)
    finally:
        sh(["git", "-C", REPO, "checkout", "--", "."])
    print("DETECTED-BY:", [p for p, r in results.items() if r["rc"] != 0])
    return results


if __name__ == "__main__":
    a = sys.argv[1:]
    if a and a[0] == "confirm":
        feats = None
        dargs = None
        if "--demo-args" in a:
            dargs = a[a.index("--demo-args") + 1]
        elif "--features" in a:
            feats = a[a.index("--features") + 1]
        aux = a[a.index("--aux-dir") + 1] if "--aux-dir" in a else None
        sys.exit(0 if confirm(a[1], a[2], feats, dargs, aux) else 1)
    elif a and a[0] == "run":
        run(a[1], a[2:])
    else:
        print(__doc__)
