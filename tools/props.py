"""Per-property registry: generator, owned observables, tolerance, trusted base, notes."""
import cases

COMMON_TB = [
    "Lean 4.33 kernel; axioms per theorem as listed in axioms_per_theorem (⊆ propext, Classical.choice, Quot.sound)",
    "hand-written Lean model /verif/lean/Rrtk/*.lean of the anchored Rust code (modelled, not verified)",
    "correspondence check: Rust harness (/verif/harness, real rrtk API in-process) vs Lean driver at Float32 on the same "
    "seeded case file; differential testing bounds what is said about the Rust code",
    "Lean Float32 primitives and this CPU's arithmetic are IEEE binary32 like rustc's f32",
]
COMMON_AS = [
    "integer timestamps do not overflow i64 inside stream/device code (generators stay in range)",
    "unit exponents stay within i8 (|exp| <= 60 per operand)",
]

PROPS = {}
HOOK_COMMITS = []

PROPS["C03"] = dict(
    gen=cases.gen_C03,
    mask={"time", "cat"},
    rule="every Datum operator form x payload type (f32, Quantity, State, Command, bool) x timestamp pair class "
         "(equal, adjacent, negative, i64 extremes, random) enumerated; replace-if-older helpers incl. empty slots; "
         "latest(); stream-level pairs and all 4^n order patterns for n-ary streams n<=4; payload values random. "
         "distinct_nontrivial = distinct case lines the model executes (not NOIMPL/BADLINE)",
    trusted_base=COMMON_TB,
    assumptions=COMMON_AS + ["device-level timestamps (inverter/gear/axle/differential) are checked under C08/C13"],
)
