"""Per-property registry: generator, owned observables, tolerance, trusted base, notes."""
import cases

TIERL_NOTE = ("tier-L scalar laws (x+y=y+x, x*y=y*x, 0+x=x, -(-x)=x, monotonicity of *1e9 / `as i64` / adding a non-negative number) are no longer "
              "only assumed for f32: they are proved for the scalar type SF = finite binary32 numbers with correctly rounded + - * / "
              "(Thm/Lemmas/SoftScalar.lean over Rrtk.Soft.rne32), and every tier-L theorem has a `_binary32` corollary without arithmetic "
              "hypotheses (Thm/Ext/*.lean). Caveats, stated in the files: SF has ONE zero (0.0 + -0.0 = +0.0 in real binary32, so 0+x=x holds only "
              "up to the sign of a zero result) and an exponent unbounded upward (overflow to infinity is outside SF)")
COMMON_TB = [
    "Lean 4.33 kernel; axioms per theorem as listed in axioms_per_theorem (⊆ propext, Classical.choice, Quot.sound)",
    "hand-written Lean model /verif/lean/Rrtk/*.lean of the anchored Rust code (modelled, not verified)",
    "correspondence check: Rust harness (/verif/harness, real rrtk API in-process) vs Lean driver at Float32 on the same "
    "seeded case file; differential testing bounds what is said about the Rust code",
    "Lean Float32 primitives and this CPU's arithmetic are IEEE binary32 like rustc's f32",
]
COMMON_AS = [
    "integer timestamps do not overflow i64 inside stream/device code (generators stay in range)",
    "unit exponents stay within i8 (|exp| <= 60 per operand)",
]

PROPS = {}
HOOK_COMMITS = ["e220ebea8a1e5de7708b107eff0326913e45a118"]

PROPS["C03"] = dict(
    exhaustive_parts='every Datum operator form x payload type x the 19 listed timestamp pair classes; every order pattern of up to 4 timestamps over {-1,0,1,2} for the n-ary streams',
    gen=cases.gen_C03,
    accept=cases.accept_latest,
    mask={"time", "cat"},
    rule="every Datum operator form x payload type (f32, Quantity, State, Command, bool) x timestamp pair class "
         "(equal, adjacent, negative, i64 extremes, random) enumerated; replace-if-older helpers incl. empty slots; "
         "latest(); stream-level pairs and all 4^n order patterns for n-ary streams n<=4; payload values random. "
         "distinct_nontrivial = distinct case lines the model executes (not NOIMPL/BADLINE)",
    trusted_base=COMMON_TB,
    assumptions=COMMON_AS + ["device-level timestamps (inverter/gear/axle/differential) are checked under C08/C13"],
)

PROPS["C01"] = dict(
    snapshot_modules=["Rrtk.Thm.Lemmas.C01Snapshot"],
    precompare=cases.precompare_conversions_C01,
    exhaustive_parts='49x49 ordered pairs of grid units x every operator/assign/compare form on Quantity and on bare Unit; all 49 named constants; all special-value pairs of the 14 listed f32 bit patterns',
    gen=cases.gen_C01,
    # "with dimension checking enabled": every way of enabling it — debug profile, release profile + dim_check_release, no_std
    configs=[(None, "chk"), ("release:std,chk,devices", "chk"), ("libm,chk,devices", "chk nostd")],
    configs_thorough=[(None, "chk"), ("release:std,chk,devices", "chk"), ("libm,chk,devices", "chk nostd"), ("std,chkdbg,devices", "chk"),
                      ("micromath,chk,devices", "chk nostd")],
    mask={"time", "cat", "unit", "float"},
    rule="49x49 ordered unit pairs x {add,sub,mul,div + assign forms, partial_cmp, ==} on Quantity and on bare Unit "
         "(exhaustive), unary ops on all 49 units, every mixed Quantity/Time/DimensionlessInteger impl on all 49 units, "
         "random exponents up to |60|, special f32 values (±0, ±inf, NaN, subnormal, extremes) bit-level, all 49 named "
         "constants, PositionDerivative/Command conversions; values random finite. distinct_nontrivial = distinct case "
         "lines the model executes",
    trusted_base=COMMON_TB + ["Gen/Constants.lean is regenerated from src/dimensions/constants.rs by tools/gen.py (regex); "
                              "the theorems constants_* are re-checked by the kernel against the regenerated table on every run"] + [TIERL_NOTE],
    assumptions=COMMON_AS,
)

PROPS["C02"] = dict(
    exhaustive_parts='every assignment of {Err(1),Err(2),None,Some} to the inputs of every combinator (n-ary at arity 1..5; binary 4x4 x {<,=,>}; logic over {E1,E2,N,true,false}); expirer categories x age {<,=,>} limit; powf corner grid 12x12',
    gen=cases.gen_C02,
    accept=cases.accept_latest,
    mask={"cat", "float"},
    rule="every assignment of {Err(1),Err(2),None,Some} to the inputs of each combinator: n-ary sum/product/newest-of at "
         "arity 1..5 exhaustively (x all 3^n timestamp orders for n<=3, sampled for n=4,5; thorough: arity up to 8), "
         "binary streams 4x4 x {<,=,>}, if/if-else/and/or/not over {E1,E2,N,true,false}, expirer/none-to-value crossed "
         "with clock category and age {<,=,>} limit; every stream read twice; values random. Timestamps are owned by C03.",
    trusted_base=COMMON_TB,
    assumptions=COMMON_AS + ["payload operators are total (f32 / bool); Quantity payload unit panics belong to C01"],
)

PROPS["C14"] = dict(
    gen=cases.gen_C14,
    precompare=cases.precompare_C14,
    # command kinds are checked by an explicit assert, not by units: mismatched kinds must panic with checking compiled out too
    configs=[(None, "chk"), ("std,devices", "nochk")],
    mask={"time", "cat", "unit", "float"},
    rule="random finite state triples (25% exact zeros, some -0) x dt in {0, ±1 ns, ±2 s, random up to ±1e5 s}; all 49 grid "
         "units as argument of each setter and in each position of State::new; all 3x3 command kind pairs for add/sub/eq; "
         "scalar ops; accessors; PID gain evaluation. distinct_nontrivial = distinct case lines the model executes",
    trusted_base=COMMON_TB + ["tier-R theorems (state_update_*) are over an ordered field with exact ofInt; f32 rounding of "
                              "State::update is not proved — the Float32 model is compared bit-for-bit instead"],
    assumptions=COMMON_AS,
    partial="Kinematics closed form proved in exact arithmetic (tier R); rounding not proved.",
)

PROPS["C18"] = dict(
    gen=cases.gen_C18,
    precompare=cases.precompare_conversions,
    oracle=cases.oracle_C18,
    # conversions must work the same with checking compiled out (`eq_assume_true` / `eq_assume_false` pick the answer there)
    configs=[(None, "chk"), ("std,devices", "nochk"), ("micromath,chk,devices", "chk nostd")],   # micromath brings its own float helpers (trunc, ...)
    configs_thorough=[(None, "chk"), ("std,devices", "nochk"), ("libm,chk,devices", "chk nostd"), ("micromath,chk,devices", "chk nostd"),
                      ("release:std,chk,devices", "chk")],
    mask={"time", "cat", "unit", "float"},
    rule="i64 operands stratified over magnitudes 0..2^62, signs, extremes and neighbourhoods of 2^24*2^k (f32 rounding ties); "
         "every Time/DimensionlessInteger operator and assign form incl. overflow and /0 panics; conversions to/from Quantity and i64; "
         "f32 seconds stratified over exponent/mantissa below 9e9; TryFrom on all 49 units; every mixed impl on all 49 units; "
         "group sf: the CPU's raw binary32 + - * /, i64 as f32, f32 as i64 on bit patterns stratified over subnormals, smallest "
         "normals, ties (few-significant-bit operands, neighbours one ulp apart), near-overflow and the crate's constants, compared "
         "three ways bit-for-bit: Rust f32 = Lean Float32 = the kernel-transparent model Rrtk.Soft.rne32 about which the accuracy "
         "theorems are proved",
    trusted_base=COMMON_TB + ["the CPU's binary32 `+ - * /`, `as f32`, saturating `as i64` coincide with Rrtk.Soft (rne32 / trunc+saturate) — "
                              "NOT proved (hardware), compared bit-for-bit on ~60 000 stratified operand pairs per run (group sf)"],
    assumptions=["debug build: integer overflow panics (release wraps; the property quantifies over non-overflowing inputs)"],
    partial="Proved: integer exactness (debug-build semantics), success conditions, identity of every mixed operator with its converted "
            "form (tier S/L); the accuracy clauses both for an ABSTRACT rounding function under the IEEE contract (Lemmas/C18Rounding.lean) "
            "and, with no rounding hypothesis at all, for the CONCRETE round-to-nearest-even function Rrtk.Soft.rne32 (precision 24, "
            "gradual underflow; Lemmas/SoftFloat.lean proves relative error 2^-24 in the normal range, absolute error 2^-150 below it, "
            "monotonicity, exactness on representable values, idempotence): Time->Quantity = rne32(rne32 t / 1e9) within |t/1e9|/2^22 and "
            "monotone, no intermediate overflow for any i64 (so rne32 IS the hardware result), Quantity->Time within |x*1e9|/2^24 + 1 ns for "
            "every x, round trip within |t|/2^22 + 1 ns (Lemmas/C18Soft.lean, *_binary32). Trusted, not proved: that the hardware's binary32 "
            "operations coincide with rne32 (three-way bit-for-bit comparison on every run).",
)

PROPS["C09"] = dict(
    exhaustive_parts='breadth-first search over every reachable matching of 2..5 terminals (thorough/deep: 6) x every connect(i,j), i!=j, and disconnect(i)',
    gen=cases.gen_C09,
    oracle=cases.oracle_C09,
    mask={"time", "cat", "unit", "float"},
    rule="breadth-first search over every reachable matching of 2..5 terminals (thorough: 6) x every connect(i,j), i!=j, and "
         "disconnect(i), each preceded by random state/command writes and followed by all three reads on all terminals; random longer "
         "sequences on up to 6 (8) terminals; all own/partner presence combinations x timestamp orders incl. ties for the reads; "
         "regression cases for the repaired connect-twice panic",
    trusted_base=COMMON_TB + ["RefCell borrow semantics are modelled (self-link / same-cell double borrow = Panic.borrow), not verified"] + [TIERL_NOTE],
    assumptions=COMMON_AS,
)

PROPS["C05"] = dict(
    project=cases.project_C05,
    exhaustive_parts='every interleaving of {present, absent, Err(1), Err(2), FromNone} up to length 4 (thorough/deep: 5) for each of the 15 stateful stream variants, each also with time standing still across gaps; freeze over all condition histories {Err,None,true,false}^n, n<=4',
    gen=cases.gen_C05,
    oracle=cases.oracle_C05,
    mask={"cat", "time"},
    rule="for each of the 12 stateful stream types (+ both EWMA/MA variants, three CommandPID kinds): every interleaving of "
         "{present, absent, Err(1), Err(2)} up to length 4 (thorough 5) exhaustively, random histories up to 48 events each with a "
         "metamorphic companion (suffix from a reset event; absent events deleted) checked on the implementation's own outputs; "
         "get() read twice per step; freeze over all condition histories {Err, None, true, false}^n x input categories. "
         "Numeric values are owned by C04/C10/C11/C12 (compared there), here categories, error identity, update return, timestamps.",
    trusted_base=COMMON_TB,
    assumptions=COMMON_AS + ["CommandPID: an update in which the *followed command getter* errors aborts before the input is read; "
                             "the no-stale-error clause is stated for updates that read the input"],
)

NUM_TOL = (1e-4, 1e-7)   # used only to LABEL a float disagreement (inside: no failing input found; outside: failing input)

PROPS["C11"] = dict(
    gen=cases.gen_C11,
    mask={"cat", "time", "float"},
    tol=NUM_TOL,
    rule="for each command kind: every interleaving of {present, absent, Err(1), Err(2)} inputs up to length 4, and random sequences up "
         "to 48 (96) events over {present state sample with increasing timestamp (dt 1 us..hours log-uniform), absent, error, set(same "
         "command), set(different kind/value), follow / change of the followed command getter (present/absent/error), stop_following, "
         "reset(), get_last_request}, random gains; NaN command corner case; compared bit-for-bit with the Float32 model",
    trusted_base=COMMON_TB,
    assumptions=COMMON_AS,
    partial="The staged PID/integral computation is proved equal to a non-incremental specification for every event history (tier S, "
            "bit-exact for f32); that the specification approximates the continuous PID law is not a claim of rounding analysis.",
)

PROPS["C04"] = dict(
    gen=cases.gen_C04,
    oracle=cases.oracle_C04,
    mask={"cat", "time", "float"},
    tol=NUM_TOL,
    rule="every interleaving of {present, absent, Err(1), Err(2)} up to length 4; random histories up to 64 (256) events with strictly "
         "increasing timestamps (dt log-uniform 1 us..2 h), random gains/setpoints/values; each random history is accompanied by the same "
         "history shifted by a constant (outputs must be identical apart from the timestamp) and scaled by 2^k, k in [-8,8] (outputs must "
         "scale exactly) and by the same history fed to the controller assembled from the crate's own streams as in examples/pid.rs "
         "(outputs must agree after every present input) — oracles evaluated on the implementation's own outputs; all lines compared "
         "bit-for-bit with the model",
    trusted_base=COMMON_TB + [TIERL_NOTE],
    assumptions=COMMON_AS,
    partial="Proved: output = non-incremental textbook PID of the current run for every history (tier S, bit-exact), reset rule, shift "
            "invariance (tier S), scaling in exact arithmetic (tier R), exact agreement with the controller assembled from the crate's own "
            "difference/integral/derivative/product/sum streams after every present input of every history (tier L: x+y=y+x and 0+x=x; "
            "units unchecked). f32 rounding of the scaling law is tested (exact for powers of two), not proved.",
)

PROPS["C15"] = dict(
    gen=cases.gen_C15,
    mask={"cat", "time", "float"},
    rule="random operation sequences up to 40 ops over {set(v) with scripted success/failure, follow of either of TWO scripted getters (also "
         "switching from one to the other without stop_following), stop_following, changes of either getter's output (present/absent/error), "
         "update, get_last_request} on a recording settable; the same plus clock changes "
         "on a ConstantGetter; GetterFromHistory over a scripted history (value = query time, absent below a threshold) for all four "
         "constructors with clock advances, set_delta, set_time, erroring clocks; TimeGetterFromGetter over all input categories + terminals that FOLLOW scripted getters (present/absent/erroring, several slots at once): Terminal::update order and early exit, update_terminals order, device update skipped on a follower error",
    trusted_base=COMMON_TB,
    assumptions=["clock + offset arithmetic does not overflow i64 (generators stay in range)"],
)

MP_RULE = ("random start/end states (positions within ±1e4 mm, start/end velocities inside, at, and outside the limit, non-zero end "
           "velocities, reversed moves, non-zero accelerations in the states), limits log-uniform in 1e-2..1e3 (also given negative), "
           "~75% accepted, rest rejected by each of the three asserts or by a unit panic; query times: negative, 0, i64 extremes, each of "
           "t1,t2,t3 −1/0/+1 ns (boundaries read from the real constructor's Debug output), midpoints, after completion, random inside "
           "the move; all six accessors + History::get compared bit-for-bit with the Float32 model")

PROPS["C06"] = dict(
    gen=cases.gen_C06,
    # the constructor converts f32 seconds to Time through TryFrom<Quantity>: must also work with checking compiled out; and it takes
    # `abs` of both limits, which has a separate body in builds without std
    configs=[(None, "chk"), ("std,devices", "nochk"), ("libm,chk,devices", "chk nostd")],
    oracle=cases.oracle_C06,
    project=cases.project_C06,
    precompare=cases.precompare_C06,
    mask={"cat", "time", "unit", "float"},
    rule=MP_RULE + "; plus a structural oracle on the implementation's own outputs (absence iff t<0, piece order, mode vs piece, "
                   "history = matching accessor bit-identically, end command after completion, 0<=t1<=t2<=t3)",
    trusted_base=COMMON_TB + ["new_times_ordered is tier L: five named monotonicity facts about binary32 (x*1e9, `as i64`, a<=a+b for b>=0, "
                              "transitivity of <=, 0*1e9 as i64 = 0) — all five are PROVED for the finite binary32 numbers with correctly rounded "
                              "arithmetic (scalar type SF over Rrtk.Soft.rne32, Thm/Lemmas/SoftScalar.lean): new_times_ordered_binary32 (Thm/Ext/C06.lean) "
                              "has no arithmetic hypothesis; what stays trusted is hardware = rne32 (compared bit-for-bit under C18, group sf) and "
                              "that no intermediate overflows to infinity"],
    assumptions=["Time arithmetic inside the accessors does not overflow (true for profiles in the stated ranges)"],
)

PROPS["C07"] = dict(
    gen=cases.gen_C07,
    precompare=cases.precompare_C07,
    configs=[(None, "chk"), ("std,devices", "nochk")],
    oracle=cases.oracle_C07,
    project=cases.project_C07,
    mask={"cat", "time", "unit", "float"},
    tol=NUM_TOL,
    rule=MP_RULE + "; dense random query times on [0,t3]; every input with zero state accelerations is paired with its mirror (positions and "
                   "velocities negated) and the outputs must be exact negations; numeric oracle on the implementation's outputs: acceleration "
                   "in {±max_acc, 0} with the displacement's sign, start values at t=0, speed bound, position = trapezoid integral of "
                   "velocity inside each piece, continuity across 1-2 ns, arrival at the goal — tolerances proportional to f32 epsilon "
                   "times the magnitudes (incl. eps*t3*slope for the f32-second phase durations)",
    trusted_base=COMMON_TB,
    assumptions=["Time arithmetic inside the accessors does not overflow"],
    partial="Proved in exact arithmetic (tier R): closed forms per piece, position is the exact integral of velocity on each piece, "
            "continuity at t2 (and at t1 for even t1; the odd-t1 jump is exactly a*t1*0.5 ns), velocity bound, acceptance when there is "
            "room, arrival and mirror symmetry for start.position != end.position. NOT proved: truncation of the phase durations to ns and "
            "binary32 rounding (the property's 'within a tolerance' clauses) — tested by the numeric oracle.",
)

DEV_TB = COMMON_TB + ["terminals/devices are modelled as an index-addressed world; RefCell/lifetime plumbing of the Rust code is not modelled "
                      "beyond the borrow panics of connect/disconnect"]

PROPS["C08"] = dict(
    gen=cases.gen_C08,
    project=cases.project_states,
    mask={"cat", "time", "float"},
    tol=NUM_TOL,
    rule="inverter, gear train (raw ratio, tooth lists of 2..6, Quantity ratio on all 49 units), axle of 0..6 terminals, differential in all "
         "four trust modes and via new(): every subset of terminals having/lacking data (exhaustive for <=3 terminals), each terminal "
         "connected to an external terminal or not, data written on the own or the external side, 1..4 (8) set/update rounds; after each "
         "update all own slots and all three reads of every terminal are printed and compared bit-for-bit + terminals that FOLLOW scripted getters (present/absent/erroring, several slots at once): Terminal::update order and early exit, update_terminals order, device update skipped on a follower error",
    trusted_base=DEV_TB,
    assumptions=COMMON_AS,
    partial="Least-squares optimality, constraint satisfaction and fixed points are proved over an ordered field (tier R); which slots are "
            "written, from which reads, with which timestamp is tier S. f32 rounding of the projection formulas is not proved.",
)

PROPS["C13"] = dict(
    gen=cases.gen_C13,
    project=cases.project_commands,
    mask={"cat", "time", "float"},
    tol=NUM_TOL,
    rule="the C08 device scenarios with commands of all three kinds carrying distinct timestamps written on own/external terminals (some "
         "terminals without a command), 1..4 (8) rounds; chains of 1..5 inverters/gear trains/axles joined by connected terminals with a "
         "command issued at either end and the devices updated in order; all command reads compared bit-for-bit + terminals that FOLLOW scripted getters (present/absent/erroring, several slots at once): Terminal::update order and early exit, update_terminals order, device update skipped on a follower error",
    trusted_base=DEV_TB + [TIERL_NOTE],
    assumptions=COMMON_AS + ["gear_relays_newest assumes the gear train's two terminals are not wired to each other (degenerate loop)"],
)

PROPS["C20"] = dict(
    gen=cases.gen_C20,
    project=cases.project_C20,
    oracle=cases.oracle_C20,
    mask={"cat", "time", "float"},
    tol=NUM_TOL,
    rule="random sequences of up to 32 events per wrapper: state/command written on the connected external terminal or on the wrapper's own "
         "terminal, inner settable accepting/rejecting, inner update ok/erroring, inner getter present/absent/erroring, disconnect, update; "
         "the values received by the recording inner settable / motor and the terminal contents are compared with the model; for the PID "
         "wrapper the model's motor value IS the stand-alone CommandPID model fed the same (time,state,command) sequence (theorem) + the wrapper's own terminal FOLLOWING scripted getters (actuator and encoder wrapper): update_terminals()? first / right after the inner update, follower error ends the update, compared in full with the model",
    trusted_base=DEV_TB,
    assumptions=COMMON_AS,
)

PROPS["C12"] = dict(
    gen=cases.gen_C12,
    # which power function the EWMA uses is decided by cfg lines in enhanced_float.rs (std > libm > micromath): the build with BOTH
    # libm and micromath must still use libm's (compared with the bound C19 allows for libm: last ulps)
    configs=[(None, "chk"), ("std,devices", "nochk"), ("libm,micromath,chk,devices", "chk nostd")],
    config_tol=cases.config_tol_C19,
    oracle=cases.oracle_C12,
    line_mask=cases.line_mask_C12,
    mask={"cat", "time", "unit", "float"},
    tol=NUM_TOL,
    rule="both variants (f32 / Quantity) of both filters: every interleaving of {present, absent, Err(1), Err(2)} up to length 4; random "
         "histories up to 64 (128) events with non-decreasing, sometimes repeated timestamps (dt: log-uniform 1 us..2 h, fixed grids, "
         "uniform), windows from 1 ns to 2 h incl. shorter than a step, smoothing in {0, 1, .5, .25, .9, .01, uniform[0,1]}; constant "
         "inputs; compared bit-for-bit with the Float32 model (powf = Float32.pow vs f32::powf); range oracle on the implementation's "
         "numbers (output within [min,max] of the samples since the last reset) and no-panic oracle",
    trusted_base=COMMON_TB + ["powf: assumed powf b 0 = 1 and 0<=powf b d<=1 for b in [0,1], d>=0 (tier-R hypotheses of ewma_convex*)"] + [TIERL_NOTE],
    assumptions=["timestamps and window stay inside the i64 no-overflow range: `output.time - window` and `output.time - prev_time` are "
                 "plain i64 subtractions in the code (i64::MIN timestamps overflow; outside the modelled range)",
                 "Quantity inputs keep one unit"],
    partial="Proved: no-panic for every history and positive window, queue invariant, weights non-negative and summing exactly to the "
            "window, output formulas (tier S); convexity/constant/first-sample (tier R with the powf hypotheses); variants agree (EWMA: no "
            "law; MA: 0 + x = x). Not proved: binary32 rounding of the averages ('up to rounding').",
)

PROPS["C10"] = dict(
    gen=cases.gen_C10,
    # "panic on wrongly dimensioned input when checking is enabled": every way of enabling it, and the unchecked build
    configs=[(None, "chk"), ("std,devices", "nochk"), ("release:std,chk,devices", "chk")],
    oracle=cases.oracle_shift("C10"),
    mask={"cat", "time", "unit", "float"},
    tol=NUM_TOL,
    rule="integral and derivative streams on all 49 input units, the three to-state converters on their own unit: random histories up "
         "to 64 (128) samples of a nonlinear signal (quadratic + sine + noise, so rectangle != trapezoid and first != second differences) "
         "with strictly increasing timestamps (dt log-uniform 1 us..2 h), interleaved with absent and error events; every history paired "
         "with its constant-shifted copy (outputs must be identical apart from timestamps); wrongly dimensioned input on all 49 units for "
         "the converters (must panic iff the unit is wrong); unit change mid-stream; every interleaving up to length 4",
    trusted_base=COMMON_TB,
    assumptions=COMMON_AS,
    partial="Proved: outputs equal non-incremental trapezoid-sum / backward-difference specifications of the current run for every history, "
            "absent-until thresholds, newest timestamp, output units, unit panics, shift invariance (tier S); exactness on linear signals "
            "(tier R). Not proved: binary32 rounding (the property's comparison against an f64 reference with a forward error bound).",
)

import extras

PROPS["C16"] = dict(
    exhaustive_parts='n-ary sum and product at arity 1..8 x all 2^N absent/present patterns; terminal reads for all own/partner presence combinations; Axle::new for 0..8 terminals',
    gen=cases.gen_C16,
    # the macro behind `to_dyn!` has a separate definition for builds with alloc but without std: the "no Reference outlives its
    # object" half is exercised there too
    configs=[(None, "chk"), ("libm,chk,devices", "chk nostd")],
    project=cases.project_states,
    extra=extras.c16_extra,
    mask={"cat", "time", "unit", "float"},
    rule="harness built with --cfg rrtk_verif (scratch arrays poisoned with 0x7F): n-ary sum and product at arity 1..8 x all 2^N "
         "absent/present patterns (f32 payload; Quantity payload up to arity 4), terminal state read for all own/partner presence "
         "combinations connected and unconnected, Axle::new for 0..8 terminals followed by reads/updates — bit-for-bit against the model, "
         "so a read of an unwritten slot (3.39e38 @ t=0x7F7F...) cannot go unnoticed. Lifetime half: 11 compile probes (one per terminal "
         "accessor) + 3 for the unsafe raw-pointer constructors + 2 controls",
    trusted_base=COMMON_TB + ["slot-level model Rrtk/Scratch.lean (Option slots; fault = read of an unwritten slot or index out of range)",
                              "rustc's borrow checker for the compile probes"],
    assumptions=["the lifetime half ('no safe program obtains a reference that outlives its object') is a statement about what rustc "
                 "accepts: it is NOT decided by the Lean model; the compile probes are exploration and are reported as such"],
    partial="PROOF for the scratch half (all arities, all patterns: only written slots are read, no index out of range, result = list-level "
            "model). The lifetime half is outside the technique (compile probes only; 11 accessors are known findings F4).",
    level_text="Proof (Lean 4) for the scratch-array half for all arities and patterns, tied to the code by bit-exact correspondence under "
               "memory poisoning; the lifetime-soundness half cannot be expressed in the model and is only explored by compile probes "
               "(known findings F4) — C16 is claimed as partial.",
)

PROPS["C17"] = dict(
    gen=cases.gen_C17,
    configs=[(None, "chk"), ("libm,chk,devices", "chk nostd")],      # alloc without std: another definition of the to_dyn! macro
    snapshot_modules=["Rrtk.Thm.Lemmas.C17Snapshot"],
    extra=extras.c17_extra,
    mask={"cat", "time", "float"},
    rule="six Reference variants x random sequences of up to 12 operations over {clone, to_dyn!, borrow+read, borrow_mut+write, "
         "increment, drop handle, liveness of the target} + the extended alphabet {to_dyn! of a MOVED handle, raw-pointer alias of the same object, clone_from} run on the heap machine (Rrtk/RefHeap.lean + RefAlias.lean); every line also in a build without std (alloc+libm: the other definition of the to_dyn! macro); to_dyn! on every variant; 2..8 real threads x 1e3 (1e5) locked increments on the "
         "Arc/static Mutex/RwLock variants, final counter = n*k; a downstream crate declaring no features of its own, and one whose library half is #![no_std] while rrtk has std (thorough: also "
         "'alloc', 'alloc+std') converting Rc / static RwLock / static pointer References with to_dyn! and checking aliasing",
    trusted_base=COMMON_TB + ["Gen/ToDyn.lean is regenerated from src/reference.rs (macro definitions, their item-level cfgs, arms and "
                              "in-body cfgs) on every run and the theorems to_dyn_* are re-checked against it",
                              "std::sync::{Mutex,RwLock}, Rc, Arc, RefCell implement the lock / refcount protocol the model assumes "
                              "(memory model, data-race freedom): trusted; real threads only sample schedules"],
    assumptions=["the lock-protocol theorem is about every schedule of the abstract protocol, not about the hardware memory model"],
    partial="Proved: aliasing/lifetime bookkeeping over all op sequences, no lost update for every schedule of the lock protocol, to_dyn! "
            "arm coverage for every caller feature set from the regenerated table. Trusted: that std's locks implement the protocol.",
)

PROPS["C19"] = dict(
    gen=cases.gen_C19,
    line_mask=cases.line_mask_C19,
    config_tol=cases.config_tol_C19,
    cross=cases.cross_C19,
    model_informational=True,
    float_value_eq=True,
    mask={"cat", "time", "unit", "float"},
    # every way the documented rule `dim_check_release or (debug_assertions and dim_check_debug)` can come out, on std; plus no_std
    configs=[(None, "chk"), ("std,devices", "nochk"), ("libm,devices", "nochk nostd"), ("libm,chk,devices", "chk nostd"),
             ("micromath,chk,devices", "chk nostd"), ("libm,micromath,devices", "nochk nostd"),     # (both on: libm takes precedence)
             ("release:std,chk,devices", "chk"), ("release:std,chkdbg,devices", "nochk")],
    configs_thorough=[(None, "chk"), ("std,devices", "nochk"), ("libm,chk,devices", "chk nostd"), ("libm,devices", "nochk nostd"),
                      ("micromath,chk,devices", "chk nostd"), ("micromath,devices", "nochk nostd"), ("std,chkdbg,devices", "chk"),
                      ("release:std,chk,devices", "chk"), ("release:std,chkdbg,devices", "nochk"), ("release:std,devices", "nochk"),
                      ("release:libm,chk,devices", "chk nostd")],
    rule="one seeded workload over the whole public API (sub-samples of every other property's generator: quantities incl. "
         "ill-dimensioned programs, time/integer ops, states, commands, data, every stateless and stateful stream, motion profiles, "
         "settables, terminals and every device and wrapper) run by the harness rebuilt from /repo under each configuration; the "
         "VERDICT comes from comparing the configurations with each other: equal values and timestamps for well-dimensioned lines, no "
         "dimension panic in unchecked builds, and for ill-dimensioned lines the unchecked builds must compute the plain arithmetic on "
         "the values (= the model with checking off). Each trace is also compared with the model run with the matching `chk`, but a "
         "disagreement that is the same in every configuration is informational here (it belongs to the property owning that behaviour). Lines whose value "
         "depends on powf (EWMA, exponent stream) are compared with a bound instead of bit-for-bit under libm (1e-4 relative + 1e-4 absolute; observed <= 3e-6) and not "
         "compared at all under micromath (its powf is a coarse approximation: O(1) relative differences observed, and it panics on an "
         "internal integer overflow for base -0.0 in debug builds — third-party behaviour), as the property itself exempts the power "
         "function there; the exact corner "
         "cases of powf (0^0, 0^-1, 1^y, x^0) and the hand-written PartialEq / manual abs on special and near-equal values are included. quick: "
         "std+chk, std unchecked, alloc+libm unchecked and checked, and the RELEASE profile (debug_assertions off) with dim_check_release "
         "(checked) and with only dim_check_debug (unchecked); thorough: all six of {std, alloc+libm, alloc+micromath} x {checked, unchecked}, "
         "debug+dim_check_debug, and four release-profile configurations",
    trusted_base=COMMON_TB + ["rustc's cfg resolution selects the bodies the model assumes for each configuration: exactly what the "
                              "multi-configuration correspondence tests (not proved)"] + [TIERL_NOTE],
    assumptions=COMMON_AS + ["powf implementations (std/libm/micromath) are outside the claim, as in the property"],
    partial="Proved: erasure on the model's configuration switch (checked run succeeds => unchecked run on unit-erased inputs gives the "
            "same values; unchecked never dimension-panics / rejects; values are plain scalar arithmetic), manual abs = abs. Not proved: "
            "that rustc's cfg selects those bodies; powf.",
)

# Every property is also checked in the RELEASE profile (debug_assertions off; the harness keeps overflow checks on, so only that one
# switch differs): a `debug_assert!` that carries a side effect, or a check demoted to `debug_assert!`, changes behaviour only there.
RELEASE_CHK = ("release:std,chk,devices", "chk")
for _pid, _P in PROPS.items():
    for _key in ("configs", "configs_thorough"):
        if _key == "configs_thorough" and _key not in _P:
            continue
        _cfgs = list(_P.get(_key, [(None, "chk")]))
        if RELEASE_CHK not in _cfgs:
            _cfgs.append(RELEASE_CHK)
        _P[_key] = _cfgs
