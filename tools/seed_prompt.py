#!/usr/bin/env python3
"""Write the task text for a seeded-defect sub-agent (one per property) to /tmp/prompts/r<ROUND>_<ID>.txt and create its scratch worktree
/tmp/mut<ROUND>_<ID> (with _PROPERTY.json = that property's line only).   usage: seed_prompt.py <ROUND> <hint-file|-> <ID>...
The sub-agent gets nothing from /verif: only the property text, the worktree, and one-line titles of ideas already used (so that it looks elsewhere)."""
import json, glob, os, re, sys, subprocess
rnd, hintf, ids = sys.argv[1], sys.argv[2], sys.argv[3:]
hint = "" if hintf == "-" else open(hintf).read().strip()
avoid = {}
for d in sorted(glob.glob('/verif/seeded/*/')):
    n = os.path.basename(d.rstrip('/')); pid = n.split('_')[0]
    f = d + 'agent_notes.txt'
    if not os.path.exists(f) or not pid.startswith('C'): continue
    first = re.sub(r'^m\d\s*[-—]+\s*', '', open(f).readline().strip())
    avoid.setdefault(pid, []).append(first[:150])
T = '''You are helping evaluate a verification framework for the Rust crate rrtk (Rust Robotics ToolKit, a small no_std robotics toolkit). Your job is to act as a realistic source of REGRESSIONS: propose changes to the crate that silently break ONE stated semantic property, while the crate still compiles and its existing test-suite still passes.

Your private scratch checkout of the crate is the git worktree at {wt} (work ONLY inside that directory; never touch /repo or /verif, never read /verif; do not use `git stash`; do not commit). The sandbox is offline: always pass `--offline` to cargo. The property you must break is in {wt}/_PROPERTY.json (id {pid}); read it carefully, then read the anchored source files.

Deliver TWO different changes (m1 and m2), each a small, plausible edit a maintainer could make by mistake or as a "harmless" refactor / optimisation / tidy-up (a few lines in src/; may touch two cooperating sites that each look fine alone). Requirements for EACH change:
 1. It genuinely violates the property as stated (not merely changes unspecified behaviour such as which of two equally valid answers is returned; re-read the statement and be sure the property forbids the new behaviour).
 2. With the change applied the crate builds (`cargo build --offline`, `cargo build --offline --features devices`, `cargo build --offline --no-default-features --features alloc,libm,devices`) and the existing suite passes unedited: `cargo test --workspace --no-fail-fast --offline` AND `cargo test --offline --features devices`.
 3. It needs something SPECIFIC to manifest — a particular multi-step sequence of operations, an unusual-but-legal input (ties, boundary values, a particular order of events, a particular arity, a particular combination of absent/error/present inputs, a particular feature configuration), or two cooperating sites — not something ordinary use would expose at once. Prefer defects that hide from random testing with "typical" values. The two changes should use different mechanisms and touch different functions where possible.
 4. Do not reuse these already-known ideas (nor close variants of them): {avoid}
    {hint}
 5. A demonstration: one Rust integration-test file (using only the crate's public API; put it at tests/zz_demo_mK.rs while you work) that PASSES on the unchanged crate and FAILS with the change applied. State which cargo arguments it needs (e.g. `--features devices`, or `--no-default-features --features std`).

Procedure for each change: edit src/, run the builds and both test commands, run the demo with the change (must fail) — then save the change with `git diff -- src > _out/mK_patch.diff`, revert with `git checkout -- src`, run the demo again (must pass), and finally remove the demo from tests/ after copying it to _out/mK_demo.rs. Leave the worktree with src/ unmodified at the end.

Write into {wt}/_out/: m1_patch.diff, m1_demo.rs, m1_meta.txt, m2_patch.diff, m2_demo.rs, m2_meta.txt. Each meta.txt: first line `mK -- <one-line title>`; then what was changed and why it looks innocent; which clause of the property it breaks; exactly what is needed for it to manifest; the commands you ran and their outcomes (with and without the change); the cargo arguments the demo needs.

If after honest effort you can only produce one valid change, deliver one and say so. Your final message should be a 5-10 line summary of the two changes (files, idea, trigger) — nothing else is needed.'''
os.makedirs('/tmp/prompts', exist_ok=True)
for pid in ids:
    wt = '/tmp/mut%s_%s' % (rnd, pid)
    subprocess.run(['git', '-C', '/repo', 'worktree', 'add', '-q', '--detach', wt, 'HEAD'], check=True)
    os.makedirs(wt + '/_out', exist_ok=True)
    for l in open('/verif/properties.jsonl'):
        p = json.loads(l)
        if p['id'] == pid: json.dump(p, open(wt + '/_PROPERTY.json', 'w'), indent=1)
    open('/tmp/prompts/r%s_%s.txt' % (rnd, pid), 'w').write(T.format(wt=wt, pid=pid, avoid='; '.join(avoid.get(pid, [])), hint=hint))
    print(pid, wt)
