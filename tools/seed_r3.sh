#!/bin/bash
# usage: [ROUND=4] seed_r3.sh <ID>...   — take the round-3 sub-agent output /tmp/mut3_<ID>/_out/m{1,2}_* , store it as
# /verif/seeded/<ID>_r3m<k>/, confirm it in a scratch worktree (tools/mutants.py confirm) and evaluate every claimed check
# against it in an isolated copy (tools/iso.py).  DEMOARGS_<name> may override the cargo arguments of the demonstration.
cd /verif
mkdir -p work/mutants work/iso
for id in "$@"; do
  for k in 1 2 3; do
    src=/tmp/mut${ROUND:-3}_$id/_out
    name=${id}_r${ROUND:-3}m$k
    d=seeded/$name
    if [ -f $src/m${k}_patch.diff ]; then
      mkdir -p $d
      cp $src/m${k}_patch.diff $d/patch.diff; cp $src/m${k}_demo.rs $d/demo.rs; cp $src/m${k}_meta.txt $d/agent_notes.txt 2>/dev/null
      [ -d $src/m${k}_downstream ] && rsync -a --exclude target $src/m${k}_downstream/ $d/downstream/
    fi
    [ -f $d/patch.diff ] || continue
    feats=""
    grep -qi "features devices" $d/demo.rs $d/agent_notes.txt 2>/dev/null && feats="--features devices"
    v="DEMOARGS_$name"; [ -n "${!v}" ] && feats="--demo-args ${!v}"
    [ -d $d/downstream ] && feats="$feats --aux-dir $d/downstream"
    echo "=== $name ($feats)"
    if [ "${MODE:-both}" != run ]; then
      eval python3 tools/mutants.py confirm $d/patch.diff $d/demo.rs $feats > work/mutants/$name.confirm 2>&1
      tail -1 work/mutants/$name.confirm
    fi
    if [ "${MODE:-both}" != confirm ]; then
      python3 tools/iso.py $d/patch.diff $CHECKS > work/iso/$name.run 2>&1
      grep "DETECTED-BY" work/iso/$name.run
    fi
  done
done
