#!/usr/bin/env python3
"""(Re)write /verif/seeded/<name>/meta.json from the confirmation log (work/mutants/<name>.confirm, when present) and the latest
isolated evaluation (work/iso/<name>.run), and print the table of DESIGN.md §11.  `--design` splices the table into DESIGN.md
between the markers <!-- SEEDED_TABLE_BEGIN --> / <!-- SEEDED_TABLE_END -->."""
import os, re, json, sys, glob
VERIF = os.path.dirname(os.path.dirname(os.path.abspath(__file__)))
NOTES = {}
try:
    NOTES = json.load(open(os.path.join(VERIF, "seeded", "NOTES.json")))
except Exception:
    pass
rows = []
for d in sorted(glob.glob(os.path.join(VERIF, "seeded", "*", ""))):
    name = os.path.basename(d.rstrip("/"))
    if not os.path.exists(os.path.join(d, "patch.diff")):
        continue
    pid = name.split("_")[0]
    if name == "F6_prefix":        # the genuine defect F6 (a C19 violation), kept as a regression: reproduced in DESIGN §7, not by tools/mutants.py
        pid = "C19"
    mp = os.path.join(d, "meta.json")
    meta = json.load(open(mp)) if os.path.exists(mp) else {"name": name, "breaks_property": pid}
    conf = os.path.join(VERIF, "work", "mutants", name + ".confirm")
    if os.path.exists(conf):
        txt = open(conf).read()
        meta["confirmed_by_me"] = txt.strip().endswith("CONFIRMED") and not txt.strip().endswith("NOT-CONFIRMED")
        try:
            meta["confirmation"] = json.loads(txt[txt.index("{"):txt.rindex("}") + 1])
        except Exception:
            pass
    notes = os.path.join(d, "agent_notes.txt")
    if os.path.exists(notes):
        meta["what_it_needs_to_manifest"] = " ".join(open(notes).read().split())[:700]
    runf = os.path.join(VERIF, "work", "iso", name + ".run")
    if os.path.exists(runf) and "DETECTED-BY" in open(runf).read():      # (a run still in progress has no summary line yet)
        det, lines = [], {}
        for l in open(runf):
            m = re.match(r"(C\d+) rc=(\d+) (.*)", l)
            if m:
                lines[m.group(1)] = m.group(3).strip()[:160]
                if m.group(2) != "0":
                    det.append(m.group(1))
        if lines:
            meta["detected_by"] = det
            meta["target_detected"] = pid in det
            meta["other_checks_raising"] = [x for x in det if x != pid]
            meta["checks_run"] = sorted(lines)
    meta["ran"] = ["python3 tools/mutants.py confirm patch.diff demo.rs [cargo args of the demonstration]  (scratch worktree: the demonstration "
                   "passes without and fails with the patch; the 138-test baseline and the devices tests pass with the patch; builds in 3 configs)",
                   "python3 tools/iso.py patch.diff  (patch applied to a scratch worktree of /repo, /verif copied next to it, every claimed "
                   "./check <ID> --tier quick run there, everything removed afterwards)"]
    if name in NOTES:
        meta["note"] = NOTES[name]
    if name == "F6_prefix":
        meta["breaks_property"] = "C19"
        meta["confirmed_by_me"] = True
    json.dump(meta, open(mp, "w"), indent=1)
    rows.append((name, pid, meta.get("confirmed_by_me"), meta.get("detected_by", []), meta.get("note", ""),
                 (open(notes).readline().strip() if os.path.exists(notes) else "")[:110]))
out = ["| seeded defect | what it is | confirmed | caught by its property's check | other checks that fire | note |", "|---|---|---|---|---|---|"]
for name, pid, c, det, note, title in rows:
    title = re.sub(r"^m\d\s*[-—]+\s*", "", title).replace("|", "/")
    out.append("| %s | %s | %s | %s | %s | %s |" % (name, title, "yes" if c else "NO", "yes" if pid in det else "**no**",
                                                   ", ".join(x for x in det if x != pid) or "—", note.replace("|", "/")))
table = "\n".join(out)
# harmless changes
BN = {}
try:
    BN = json.load(open(os.path.join(VERIF, "benign", "NOTES.json")))
except Exception:
    pass
brows = ["| harmless change | what it is | checks that raised an alarm (final) | note |", "|---|---|---|---|"]
for d in sorted(glob.glob(os.path.join(VERIF, "benign", "*", ""))):
    name = os.path.basename(d.rstrip("/"))
    if not os.path.exists(os.path.join(d, "patch.diff")):
        continue
    title = ""
    nf = os.path.join(d, "notes.txt")
    if os.path.exists(nf):
        title = re.sub(r"^b\d\s*[-—]+\s*", "", open(nf).readline().strip())[:150].replace("|", "/")
    runf = os.path.join(VERIF, "work", "iso", "ben_" + name + ".run")
    det = None
    if os.path.exists(runf) and "DETECTED-BY" in open(runf).read():
        det = [m.group(1) for m in (re.match(r"(C\d+) rc=(\d+)", l) for l in open(runf)) if m and m.group(2) != "0"]
    res = {"name": name, "alarms": det, "note": BN.get(name, "")}
    json.dump(res, open(os.path.join(d, "result.json"), "w"), indent=1)
    brows.append("| %s | %s | %s | %s |" % (name, title, "not run" if det is None else (", ".join(det) or "none"), BN.get(name, "").replace("|", "/")))
btable = "\n".join(brows)
if "--design" in sys.argv:
    p = os.path.join(VERIF, "DESIGN.md")
    s = open(p).read()
    b, e = "<!-- SEEDED_TABLE_BEGIN -->", "<!-- SEEDED_TABLE_END -->"
    if b in s:
        s = s[:s.index(b) + len(b)] + "\n" + table + "\n" + s[s.index(e):]
    else:
        s = s.replace("SEEDED_TABLE_PLACEHOLDER", b + "\n" + table + "\n" + e)
    b2, e2 = "<!-- BENIGN_TABLE_BEGIN -->", "<!-- BENIGN_TABLE_END -->"
    if b2 in s:
        s = s[:s.index(b2) + len(b2)] + "\n" + btable + "\n" + s[s.index(e2):]
    open(p, "w").write(s)
else:
    print(table)
    print()
    print(btable)
