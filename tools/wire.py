"""Encoding helpers for the line protocol (see /verif/PROTOCOL.md) and the field-level comparator."""
import re, struct, random

def f2h(x):
    """python float -> 8 hex digits of the nearest binary32"""
    try:
        return "%08x" % struct.unpack(">I", struct.pack(">f", x))[0]
    except OverflowError:
        return "7f800000" if x > 0 else "ff800000"

def h2f(h):
    if h == "nan":
        return float("nan")
    return struct.unpack(">f", struct.pack(">I", int(h, 16)))[0]

def q(x, mm, s):
    return "Q:%s:%d,%d" % (x if isinstance(x, str) else f2h(x), mm, s)

def out_some(t, v):
    return "S@%d@%s" % (t, v)

def state(p, v, a):
    return "%s/%s/%s" % tuple(x if isinstance(x, str) else f2h(x) for x in (p, v, a))

SPECIAL_F = ["00000000", "80000000", "7f800000", "ff800000", "7fc00000", "00000001", "807fffff",
             "7f7fffff", "ff7fffff", "3f800000", "bf800000", "34000000", "4b800000", "4b7fffff"]

def rand_f(rng, lo=-1e3, hi=1e3):
    """mostly-valid payload: finite, moderate magnitude; a few exact small integers and halves"""
    r = rng.random()
    if r < 0.02:     # values below f32::EPSILON (an "approximately zero" shortcut must not swallow them), subnormals, -0
        return rng.choice(["33000000", "b3000000", "2e000000", "ae000000", "00000001", "80000001", "00400000", "80000000",
                           f2h(rng.uniform(-1.1e-7, 1.1e-7))])
    if r < 0.15:
        return f2h(float(rng.randint(-8, 8)))
    if r < 0.25:
        return f2h(rng.randint(-64, 64) / 8.0)
    if r < 0.30:
        return f2h(10.0 ** rng.uniform(-6, 6) * rng.choice([-1, 1]))
    return f2h(rng.uniform(lo, hi))

def rand_pos_f(rng, lo=1e-2, hi=1e3):
    import math
    return f2h(math.exp(rng.uniform(math.log(lo), math.log(hi))))

def log_dt(rng, lo_ns=1_000, hi_ns=7_200_000_000_000):
    """sampling interval: log-uniform 1 µs .. hours, in ns"""
    import math
    if lo_ns <= 1_000 and rng.random() < 0.08:      # very short ODD intervals: integer halving / truncation of ns shows up here
        return rng.choice([1, 3, 5, 7, 9, 11, 101, 999, 1000, 1000, 1001, 2001])
    return max(1, int(math.exp(rng.uniform(math.log(lo_ns), math.log(hi_ns)))))

I64_MIN = -(2 ** 63)
I64_MAX = 2 ** 63 - 1

HEX8 = re.compile(r"^[0-9a-f]{8}$")
SEP = re.compile(r"([/@:;,=~+])")

def fields(tok):
    """split a token into (class, text) fields. classes: time, float, unit, cat"""
    parts = SEP.split(tok)
    vals = parts[0::2]
    seps = parts[1::2]
    out = []
    for i, v in enumerate(vals):
        nxt = seps[i] if i < len(seps) else ""
        prv = seps[i - 1] if i > 0 else ""
        prev_val = vals[i - 1] if i > 0 else ""
        if prv == ":" and prev_val == "W":
            cls = "word"        # payload of the non-commutative word type: owned like a float payload, compared exactly
        elif nxt == "," or prv == ",":
            cls = "unit"
        elif nxt == "@" and re.match(r"^-?\d+$", v):
            cls = "time"
        elif prv == ":" and prev_val in ("T", "D", "I"):
            cls = "time"
        elif HEX8.match(v) or v == "nan":
            cls = "float"
        elif len(v) == 9 and v[0] in "PVA" and (HEX8.match(v[1:])):
            out.append(("cat", v[0]))
            out.append(("float", v[1:]))
            continue
        elif len(v) == 4 and v[0] in "PVA" and v[1:] == "nan":
            out.append(("cat", v[0]))
            out.append(("float", "nan"))
            continue
        else:
            cls = "cat"
        out.append((cls, v))
    return out

def float_close(a, b, rel, abs_):
    if a == b:
        return True
    if a == "nan" or b == "nan":
        return False
    x, y = h2f(a), h2f(b)
    if x == y:
        return True  # +0 / -0
    import math
    if math.isinf(rel):
        return True
    if math.isinf(x) or math.isinf(y):
        return False
    return abs(x - y) <= rel * max(abs(x), abs(y)) + abs_

def compare_lines(impl, model, mask, tol=None, value_eq=False):
    """Compare two output lines field by field.
    mask: set of field classes that this property owns (others are ignored, counted as drift).
    tol: None -> floats must be bit-identical; (rel, abs) -> a float difference inside the tolerance is
         a broken correspondence without a failing input ("soft").
    returns (verdict, detail): verdict in {"same", "drift", "soft", "hard"}"""
    if impl == model:
        return "same", None
    ti, tm = impl.split(" "), model.split(" ")
    if len(ti) != len(tm):
        # structure differs (e.g. one side panicked): owned if cat is owned
        return ("hard" if "cat" in mask else "drift"), "token count %d vs %d" % (len(ti), len(tm))
    verdict = "same"
    detail = None
    rank = {"same": 0, "drift": 1, "soft": 2, "hard": 3}
    for k, (a, b) in enumerate(zip(ti, tm)):
        if a == b:
            continue
        if a.startswith("PANIC:") and b.startswith("PANIC:"):
            continue      # both panic: WHICH assertion / message fired is not part of any property (a reworded assert is harmless)
        if a in ("?", "?,?") or b in ("?", "?,?"):
            continue      # the harness could not observe this private value (changed Debug output and no behavioural probe): not compared
        fa, fb = fields(a), fields(b)
        if len(fa) != len(fb) or [c for c, _ in fa] != [c for c, _ in fb]:
            v = "hard" if "cat" in mask else "drift"
            d = "token %d: %s vs %s (shape)" % (k, a, b)
        else:
            v = "same"
            d = None
            for (c, x), (_, y) in zip(fa, fb):
                if x == y:
                    continue
                if c == "word":
                    w = "hard" if "float" in mask else "drift"
                elif c not in mask:
                    w = "drift"
                elif c == "float":
                    if value_eq and float_close(x, y, 0.0, 0.0):
                        continue          # equal as f32 VALUES (-0.0 == +0.0)
                    if tol is not None and float_close(x, y, tol[0], tol[1]):
                        w = "soft"
                    else:
                        w = "hard"
                else:
                    w = "hard"
                if rank[w] > rank[v]:
                    v = w
                    d = "token %d field %s: impl %s vs model %s" % (k, c, x, y)
        if rank[v] > rank[verdict]:
            verdict, detail = v, d
    return verdict, detail
